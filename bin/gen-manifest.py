#!/usr/bin/env python3
"""Writes /verif/MANIFEST.json. Edit the tables here, never the JSON by hand."""
import json

TECH = "deterministic simulation with fault injection: seeded search over schedules/fault sequences against the real contracts in a simulated chain world"

CHECKS = {
    "C01": ("cross-invariant State.total == forwarded - set-aside - swept (+resume re-basing) after every transaction, plus the honest-operator backing equation, over seeded histories with IBC faults; both token-factory builds",
            "world stubs (runtime/bank/IBC/hooks/native chain) are trusted; forced recoveries by an honest admin only; sampled, not enumerated", "6 C01"),
    "C02": ("contract staked-asset balance == unwithdrawn received batches + retained fees + refunded-not-re-sent transfers after every transaction; entitled withdraw / fee withdraw / recovery never fail for lack of funds; one listed known finding (ownerless-stake sweep)",
            "bank and IBC refund ledgers of the simulator are ground truth; the equation is read net of unsolicited deposits (generated as a fault kind), which back nobody's claim", "6 C02"),
    "C03": ("token-factory supply == State LST total; contract LST balance == pending batch + refundable LST; each stake delivers exactly the minted amount to the chosen recipient on either chain and to nobody else; each submission burns the batch total; both builds",
            "token-factory and bank stubs are ground truth; the contract's own LST balance is read net of unsolicited deposits", "6 C03"),
    "C04": ("per-transaction refinement against independent 256-bit arithmetic: floor mint, refusal conditions, floor set-aside, rate monotonicity, no round-trip profit, along histories with totals seeded across magnitudes and rates; a quarter of the cases sample the two public ratio helpers directly over the whole 128-bit range",
            "the pure-arithmetic forall over all 128-bit inputs is sampled at reachable totals and rounding-boundary amounts, not enumerated", "6 C04"),
    "C05": ("model of requests per batch built from real LiquidUnstake calls; payouts compared with floor(received*own/total) from bank effects; second withdrawals, strangers, slashed and generous deliveries, all orders",
            "bank effects of the runtime stub are ground truth", "6 C05"),
    "C06": ("batch-structure invariants after every transaction (one pending, highest id, contiguous ids, monotone status, constant expected) and success-iff conditions of SubmitBatch / ReceiveUnstakedTokens at deadline-1/0/+1 s on the simulated clock",
            "block time is the only clock; success demand dropped only under an injected environment fault or a resume artefact", "6 C06"),
    "C07": ("ground-truth packet table (true fate of every transfer) compared with IbcQueue/IbcReplyQueue after every transaction under submission failures, error acks, timeouts, reordering, stray and lost callbacks; recovery selection/sum/receiver checks incl. repeated ids; rollback on failed submission",
            "IBC core never replays an acknowledgement for the same (channel, sequence); ibc-hooks semantics as on Osmosis: an erroring acknowledgement callback fails the relayer's transaction and is relayed again, an erroring timeout callback is dropped for good (so the timeout of a tracked transfer must not be answered with an error)", "6 C07"),
    "C08": ("intruder operations (message kind x principal) interleaved in every reachable state; unauthorised => error and storage byte-identical; withdraw pays the caller's own request only",
            "principals are those the statement lists; addresses are valid bech32 under the chain prefix", "6 C08"),
    "C09": ("the simulator's own ibc-hooks implementation (independent SHA-256/bech32 recipe) executes the contract from the derived account: genuine staker/collector accepted, impostors (other account, other channel, role swap, direct call) refused, across channel (incl. non-canonical spellings) / staker / collector (incl. upper-case) configurations and the prefix written by the 0.4.20->1.0.0 migration; derivation compared input by input; every prefix accepted by validation must be derivable",
            "collision freedom beyond sampled pairs rests on SHA-256 (assumed)", "6 C09"),
    "C10": ("fresh instance halted; while halted the six guarded operations fail for arguments that would otherwise succeed; raw-storage diff of halt == flag only; resume == flag + three totals exactly; only admin resumes; no configuration update or migration lifts a halt",
            "raw storage decoded with serde_json::Value", "6 C10"),
    "C11": ("fee == floor(rate*reward/100000) by independent arithmetic from bank/IBC effects of each reward transaction; treasury paid in the same transaction or accrual; FeeWithdraw bounded by accrued across treasury/config changes",
            "zero-amount bank sends accepted by the stub; zero-amount IBC transfers rejected", "6 C11"),
    "C12": ("model (admin, nominee, earliest acceptance) against nominate/revoke/accept by every principal at min_time-1/0/+1 s on both contracts; former admin loses rights, acceptance consumes nomination",
            "simulated clock with sub-second block times in half of the runs; the admin-only probe is an UpdateConfig without sections (touches nothing)", "6 C12"),
    "C13": ("multi-party histories against the real treasury contract: swap executed => trader at that time, route in allow-list at that time, end-point denom matches; emitted message decoded by an independent protobuf reader equals the request; spends admin-only with prefix rules",
            "no clock or fault dimension in this property: the simulator contributes histories (config updates between swaps) and independent decoding", "6 C13"),
    "C14": ("field-level corrupted instantiate/UpdateConfig messages against an independent well-formedness checker (own bech32); sectional updates verified by raw-storage diff inside running histories; validator edits exact",
            "mostly an input property; duplicates are byte-identical strings; bech32 or bech32m checksums both count as valid (least demanding reading)", "6 C14"),
    "C15": ("every totals-changing transaction's decoded oracle post compared with independently computed post-transaction rates; every run paired with a no-oracle twin executing the same operation list and compared step by step",
            "oracle stub records posts; oracle-side and gas faults disabled in paired runs because they legitimately diverge", "6 C15"),
    "C16": ("catch_unwind around every entry-point call of both contracts in every workload plus a hostile mix (unknown ids, malformed funds, unknown reply ids, hostile queries, migrate with arbitrary versions), overflow checks on; both builds",
            "domain restricted as the statement says: amounts <= 1e27, rates within [1e-3, 1e3], senders valid under the chain prefix", "6 C16"),
    "C17": ("after histories with many batches/packets: random (start_after, limit, status) pages, full paging walks, by-id lookups, queue paging and per-user requests compared with the reference model; raw-storage index cross-check",
            "limit >= 1 (a page size of 0 is not a page)", "6 C17"),
    "C18": ("gate matrix (name x stored version x message) on generated stores, upgrade in the middle of a run with packets in every status and continuation under the conservation oracles, older config paths field by field, abort-at-k-th-storage-access inside migrate then retry",
            "legacy layouts are reconstructed from the migration state modules' field lists; the released batch storage format is a golden record in the harness", "6 C18"),
    "C19": ("both binaries run the same seeds; token-factory messages decoded by a hand-written canonical protobuf reader per flavour; normalised event logs compared run by run",
            "the chain stub of each flavour accepts only its own type URLs", "6 C19"),
}

NOT_APPLICABLE = [
    {"property_id": "C20", "reason": "pure encode/decode property of ~1400 generated protobuf types: no schedule, clock, fault, party or history enters it, so deterministic simulation has nothing to decide (the three types the contracts use are covered by C19)"},
]

PENDING = set()  # built but not yet registered
checks = []
for pid in sorted(CHECKS):
    if pid in PENDING:
        NOT_APPLICABLE.append({"property_id": pid, "reason": "check under construction in this commit; will be claimed once its module is in place"})
        continue
    text, note, ref = CHECKS[pid]
    checks.append({
        "property_id": pid,
        "quick_cmd": f"bin/check {pid} quick",
        "thorough_cmd": f"bin/check {pid} thorough",
        "evidence_file": f"/verif/evidence/{pid}.json",
        "replay_cmd_template": "bin/replay {path}",
        "engine": "mwsim",
        "level_claimed": {"category": "exploration", "text": text, "design_ref": f"DESIGN.md §{ref}"},
        "level_note": note,
        "technique": TECH,
    })

manifest = {
    "version": 1,
    "setup_cmd": "bin/setup",
    "hooks": {
        "guard": "milkyway_contracts_verif",
        "enable": "no source hooks are needed: the contracts' own seams (Storage, Api, Env, MessageInfo, reply, sudo, migrate, cargo feature miniwasm) are used; the guard is nominal and unused",
        "baseline_off_cmd": "cd /repo && cargo test --workspace --no-fail-fast --offline",
        "source_commits": [],
        "add_only": True,
    },
    "engines": [
        {"name": "mwsim", "path": "/verif/sim", "serves_properties": sorted(CHECKS), "kind_free_text": "hand-written discrete-event simulator (Rust): real staking+treasury contracts inside a stubbed chain world; one xoshiro256** stream per run; ddmin minimisation; replay files"},
    ],
    "checks": checks,
    "not_applicable": NOT_APPLICABLE,
    "notes": "Exit codes of every check: 0 held, 1 violation with a VIOLATION line and a replay file under /verif/replays, 2 harness error. Known findings are listed in /verif/known_findings.json. Genuine defects repaired in /repo are 'fix:' commits listed in the same file.",
}
json.dump(manifest, open("/verif/MANIFEST.json", "w"), indent=1)
print("wrote MANIFEST.json with", len(checks), "checks")
