//! Seeded, state-aware generation of swarm configurations and operations.

use crate::engine::*;
use crate::ops::*;
use crate::util::*;
use crate::world::*;

pub fn pow10(e: u32) -> u128 {
    10u128.pow(e)
}

pub fn gen_swarm(rng: &mut Rng, profile: Profile) -> Swarm {
    let proto_prefix = rng.pick(&["osmo", "osmo", "osmo", "milk", "init", "a"]).to_string();
    let native_prefix = if rng.chance(15, 100) { proto_prefix.clone() } else { rng.pick(&["celestia", "celestia", "init", "tia"]).to_string() };
    let native_prefix = if native_prefix == proto_prefix || !rng.chance(0, 1) { native_prefix } else { native_prefix };
    let scale = match profile {
        Profile::Rates => rng.range(0, 27) as u8,
        _ => *rng.pick(&[0u8, 3, 6, 6, 6, 9, 12, 18, 24, 27]),
    };
    let (init_n, init_l) = if matches!(profile, Profile::Upgrade) || rng.chance(45, 100) {
        (0, 0)
    } else {
        // a rate within [1e-3, 1e3]
        let base = pow10(scale as u32).max(1000);
        let n = base * rng.range(1, 999) as u128;
        let k = rng.range(0, 5);
        let l = match k {
            0 => n,
            1 => n / rng.range(2, 900) as u128,
            2 => n * rng.range(2, 900) as u128,
            3 => n - n / rng.range(3, 50) as u128,
            4 => n + n / rng.range(3, 50) as u128,
            _ => n + rng.range(1, 7) as u128,
        };
        (n, l.max(1))
    };
    let fee_rate = match profile {
        Profile::Fees => *rng.pick(&[0u128, 1, 7, 1000, 10000, 33333, 99999, 100000, 100001, 250000]),
        _ => *rng.pick(&[0u128, 1000, 10000, 10000, 50000, 100000]),
    };
    let many = profile == Profile::ManyBatches;
    // thorough tier: a third of the histories are three times as long
    let long = std::env::var("MWSIM_LONG").map(|v| v == "1").unwrap_or(false) && rng.chance(1, 3);
    Swarm {
        profile,
        proto_prefix,
        native_prefix,
        channel: *rng.pick(&[0u64, 1, 42, 1234, 4_000_000_000]),
        batch_period: if many { 60 } else { *rng.pick(&[60u64, 3600, 86_400, 7 * 86_400, 0, 1]) },
        unbonding: *rng.pick(&[120u64, 86_400, 21 * 86_400, 90 * 86_400, 0]),
        min_stake: *rng.pick(&[0u128, 1, 100, 1_000_000]),
        fee_rate,
        treasury: rng.chance(1, 2),
        oracle: rng.chance(85, 100),
        monitors: rng.range(0, 3) as u8,
        users: if many { 1 } else { rng.range(1, 6) as u8 },
        scale,
        init_n,
        init_l,
        honest: rng.chance(1, 2),
        faults: profile == Profile::Backlog || rng.chance(7, 10),
        skew: rng.range(0, 60) as i64 - 30,
        n_ops: if many { 260 } else if profile == Profile::Backlog { rng.range(60, 150) as u32 } else { rng.range(20, 150) as u32 * if long { 3 } else { 1 } },
        start_s: 1_700_000_000 + rng.below(100_000_000),
        base_tx_index: rng.below(50) as u32,
        zero_ibc_ok: rng.chance(3, 10),
        zero_tf_ok: rng.chance(3, 10),
        mon_rev: rng.chance(1, 2),
        sub_second: rng.chance(1, 2),
    }
}

fn amount(rng: &mut Rng, e: &Engine) -> u128 {
    let base = pow10(e.sw.scale as u32);
    let k = rng.below(10);
    let a = match k {
        0 => base,
        1 => base * rng.range(1, 999) as u128,
        2 => base * rng.range(1, 999) as u128 + rng.range(0, 9) as u128,
        3 => (base / 10).max(1) * rng.range(1, 9999) as u128,
        4 => {
            // rounding boundary: a multiple of N/gcd-ish: use the totals themselves
            let n = e.m.n.max(1);
            let l = e.m.l.max(1);
            (n / l).max(1) * rng.range(1, 50) as u128 + rng.range(0, 2) as u128
        }
        5 => e.m.cfg.min_stake.saturating_add(rng.range(0, 2) as u128).saturating_sub(1).max(1),
        6 => rng.range(1, 20) as u128,
        _ => base * rng.range(1, 99) as u128 + rng.below128(base.max(1)),
    };
    a.clamp(1, pow10(27))
}

fn who_any(rng: &mut Rng) -> Who {
    match rng.below(13) {
        0 => Who::Admin,
        1 => Who::FormerAdmin,
        2 => Who::Nominee,
        3 => Who::Monitor(rng.below(3) as u8),
        4 => Who::RemovedMonitor,
        5 => Who::StakerHook,
        6 => Who::CollectorHook,
        7 => Who::SelfContract,
        8 => Who::Treasury,
        9 => Who::Oracle,
        10 => Who::Proxy(rng.below(3) as u8),
        11 => Who::Candidate(rng.below(4) as u8),
        _ => Who::User(rng.below(8) as u8),
    }
}

/// accounts that hold some role on the protocol chain (none of which is the ibc-hooks account)
fn who_privileged(rng: &mut Rng) -> Who {
    match rng.below(8) {
        0..=2 => Who::Admin,
        3 | 4 => Who::Monitor(rng.below(3) as u8),
        5 => Who::Treasury,
        6 => Who::FormerAdmin,
        _ => Who::Oracle,
    }
}

fn who_non_admin(rng: &mut Rng) -> Who {
    loop {
        let w = who_any(rng);
        if w != Who::Admin {
            return w;
        }
    }
}

fn cfg_sections(rng: &mut Rng, e: &Engine) -> Vec<CfgSection> {
    let mut v = vec![];
    let mask = rng.range(1, 31);
    if mask & 1 != 0 {
        v.push(CfgSection::Fee { rate: *rng.pick(&[0u128, 1, 500, 10000, 50000, 100000, 100001, 300000]), treasury: rng.chance(1, 2) });
    }
    let limit = u64::MAX / 1_000_000_000; // largest deadline representable as a Timestamp
    let now = e.w.now_s();
    let edge = *rng.pick(&[limit - now, limit - now + 1, limit - now - 1, limit, limit - now / 2]);
    if mask & 2 != 0 && rng.chance(1, 6) {
        v.push(CfgSection::BatchPeriod(edge));
    } else if mask & 2 != 0 {
        v.push(CfgSection::BatchPeriod(*rng.pick(&[0u64, 1, 60, 60, 3600, 3600, 86_400, 86_400, 30 * 86_400, 30 * 86_400, u64::MAX, u64::MAX / 2 + 7])));
    }
    if mask & 4 != 0 {
        let n = rng.below(4);
        v.push(CfgSection::Monitors((0..n).map(|_| rng.below(4) as u8).collect()));
    }
    if mask & 8 != 0 && rng.chance(1, 4) {
        // repeat every current native value and rotate only the reward collector (takes effect at quiescent points)
        let vals: Vec<u8> = e.m.cfg.validators.iter().filter_map(|x| e.a.vals.iter().position(|y| y == x).map(|i| i as u8)).collect();
        let st = e.a.nstakers.iter().position(|x| x.eq_ignore_ascii_case(&e.m.cfg.staker)).unwrap_or(0) as u8;
        let col = e.a.ncollectors.iter().position(|x| x.eq_ignore_ascii_case(&e.m.cfg.collector)).unwrap_or(0) as u8;
        v.push(CfgSection::Native { unbonding: e.m.cfg.unbonding, validators: vals, staker: st, collector: col.wrapping_add(1 + rng.below(2) as u8), upper: false });
    } else if mask & 8 != 0 {
        let n = rng.below(4);
        let unb = if rng.chance(1, 6) { edge } else { *rng.pick(&[0u64, 1, 120, 120, 86_400, 86_400, 21 * 86_400, 21 * 86_400, u64::MAX, u64::MAX - 1_000_000]) };
        v.push(CfgSection::Native { unbonding: unb, validators: (0..n).map(|_| rng.below(5) as u8).collect(), staker: rng.below(3) as u8, collector: rng.below(3) as u8, upper: rng.chance(1, 6) });
    }
    if mask & 16 != 0 {
        v.push(CfgSection::Protocol { min_stake: *rng.pick(&[0u128, 1, 100, 1_000_000]), oracle: rng.chance(85, 100), channel: if rng.chance(1, 3) { rng.below(5000) } else { e.sw.channel }, spell: (if rng.chance(1, 5) { 4 + rng.below(4) as u8 } else { rng.below(4) as u8 }) + if rng.chance(1, 3) { 8 } else { 0 } });
    }
    v
}

fn admin_msg(rng: &mut Rng, e: &Engine) -> AdminOp {
    match rng.below(11) {
        0 => AdminOp::Breaker,
        1 => AdminOp::ResumeSame,
        2 => AdminOp::UpdateConfig(cfg_sections(rng, e)),
        3 => AdminOp::FeeWithdrawPct { pct: rng.range(1, 100) as u8 },
        4 => AdminOp::AddValidator(rng.below(5) as u8),
        5 => AdminOp::RemoveValidator(rng.below(5) as u8),
        6 => AdminOp::Transfer(rng.below(4) as u8),
        7 => AdminOp::Revoke,
        8 => AdminOp::Accept,
        9 => AdminOp::ForcedRecover { ids: vec![rng.below(4)], receiver: None, honest: true },
        _ => AdminOp::FeeWithdraw { amount: rng.range(0, 3) as u128 },
    }
}

/// Weights: index meanings below.
#[derive(Clone, Copy)]
struct W {
    stake: u32,
    unstake: u32,
    submit: u32,
    deadline: u32,
    deliver: u32,
    withdraw: u32,
    relay: u32,
    timeout: u32,
    recover: u32,
    rewards: u32,
    config: u32,
    halt: u32,
    resume: u32,
    feew: u32,
    owner: u32,
    intruder: u32,
    fault: u32,
    stray: u32,
    query: u32,
    slash: u32,
    advance: u32,
    hostile: u32,
    migrate: u32,
    forced: u32,
    validators: u32,
}

fn weights(p: Profile) -> W {
    let base = W { stake: 20, unstake: 10, submit: 6, deadline: 6, deliver: 6, withdraw: 8, relay: 22, timeout: 3, recover: 4, rewards: 5, config: 2, halt: 1, resume: 1, feew: 2, owner: 1, intruder: 2, fault: 4, stray: 2, query: 2, slash: 1, advance: 4, hostile: 0, migrate: 0, forced: 1, validators: 1 };
    match p {
        Profile::General => base,
        Profile::Exit => W { unstake: 16, submit: 10, deadline: 10, deliver: 12, withdraw: 16, migrate: 1, ..base },
        Profile::Ibc => W { relay: 14, timeout: 8, recover: 12, fault: 10, stray: 6, forced: 5, stake: 24, rewards: 8, ..base },
        Profile::Admin => W { config: 8, halt: 4, resume: 4, feew: 4, owner: 10, intruder: 16, validators: 6, forced: 3, deadline: 8, migrate: 2, ..base },
        Profile::Rates => W { stake: 30, unstake: 14, submit: 10, deadline: 8, resume: 4, rewards: 8, deliver: 6, ..base },
        Profile::Fees => W { rewards: 18, feew: 10, config: 8, resume: 2, ..base },
        Profile::Queries => W { query: 30, unstake: 14, submit: 10, deadline: 10, deliver: 8, ..base },
        Profile::Hostile => W { hostile: 20, query: 10, intruder: 8, ..base },
        Profile::Lifecycle => W { unstake: 14, submit: 16, deadline: 20, deliver: 14, config: 5, advance: 8, ..base },
        Profile::Halt => W { halt: 8, resume: 6, intruder: 6, submit: 8, deliver: 8, withdraw: 10, rewards: 8, ..base },
        Profile::Upgrade => W { migrate: 4, recover: 8, timeout: 6, fault: 6, rewards: 8, ..base },
        Profile::Backlog => W { stake: 40, relay: 30, timeout: 6, recover: 2, rewards: 6, unstake: 2, submit: 1, deadline: 1, deliver: 1, withdraw: 1, config: 0, halt: 0, resume: 0, feew: 0, owner: 0, intruder: 0, fault: 1, stray: 1, query: 3, slash: 0, advance: 2, hostile: 0, migrate: 0, forced: 1, validators: 0 },
        Profile::ManyBatches => W { stake: 3, unstake: 40, submit: 30, deadline: 30, deliver: 4, withdraw: 2, relay: 2, timeout: 0, recover: 0, rewards: 0, config: 0, halt: 0, resume: 0, feew: 0, owner: 0, intruder: 0, fault: 0, stray: 0, query: 14, slash: 0, advance: 0, hostile: 0, migrate: 0, forced: 0, validators: 0 },
    }
}

pub fn first_ops(e: &Engine) -> Vec<Op> {
    vec![Op::Admin(AdminOp::Resume { n: e.sw.init_n, l: e.sw.init_l, r: 0 })]
}

pub fn next_op(e: &Engine, rng: &mut Rng) -> Op {
    let w = weights(e.sw.profile);
    let s = e.s_addr();
    let nu = e.n_users() as u64 + 2;
    let open: Vec<&Packet> = e.w.st.packets.iter().filter(|p| p.sender == s).collect();
    let inflight = open.iter().filter(|p| p.state == PState::InFlight).count() as u32;
    let recvd = open.iter().filter(|p| matches!(p.state, PState::RecvOk | PState::RecvErr)).count() as u32;
    let refundable = open.iter().filter(|p| p.state == PState::Refunded && !e.m.recovered.contains(&p.id)).count() as u32;
    let holders: Vec<u8> = (0..nu as u8).filter(|i| e.w.st.bank.balance(&e.user_addr(*i), &e.lst) > 0).collect();
    let pend = e.m.batches.get(&e.m.pending);
    let pend_nonempty = pend.map(|b| !b.reqs.is_empty()).unwrap_or(false);
    let submitted: Vec<u64> = e.m.batches.values().filter(|b| b.status == 1).map(|b| b.id).collect();
    let claimable: Vec<(u64, String)> = e.m.batches.values().filter(|b| b.status == 2).flat_map(|b| b.reqs.keys().map(move |k| (b.id, k.clone()))).collect();
    let upgrade = e.sw.profile == Profile::Upgrade;
    let halted_mul = |x: u32| if e.m.halted { x / 4 } else { x };
    let table: [u32; 25] = [
        halted_mul(w.stake),
        if holders.is_empty() { 0 } else { halted_mul(w.unstake) },
        if pend_nonempty { w.submit * 2 } else { w.submit / 3 },
        if pend_nonempty || !submitted.is_empty() || e.m.nominee.is_some() { w.deadline } else { 0 },
        if submitted.is_empty() { w.deliver / 4 } else { w.deliver * 2 },
        if claimable.is_empty() { w.withdraw / 4 } else { w.withdraw * 2 },
        if inflight + recvd == 0 { 0 } else { w.relay + 4 * (inflight + recvd).min(6) },
        if inflight == 0 || !e.sw.faults { 0 } else { w.timeout },
        if e.sw.profile == Profile::Backlog { if refundable >= 11 { 60 } else if refundable > 0 { 1 } else { 0 } } else if refundable == 0 { w.recover / 4 } else { w.recover * 3 },
        if e.m.l == 0 { w.rewards / 4 } else { halted_mul(w.rewards) },
        w.config,
        w.halt,
        if e.m.halted { w.resume * 12 } else { w.resume },
        w.feew,
        w.owner,
        w.intruder,
        if e.sw.faults { w.fault } else { 0 },
        w.stray,
        w.query,
        if e.sw.honest { 0 } else { w.slash },
        w.advance,
        w.hostile,
        w.migrate,
        if e.sw.faults { w.forced } else { 0 },
        w.validators,
    ];
    // follow-up biases: place the interesting operation right after the event that sets it up
    let mut table = table;
    // several refunded transfers for one receiver: forced recoveries with repeated ids become interesting
    let mut per_recv: std::collections::BTreeMap<&str, u32> = Default::default();
    for p in open.iter().filter(|p| p.state == PState::Refunded && !e.m.recovered.contains(&p.id)) {
        *per_recv.entry(p.receiver.as_str()).or_insert(0) += 1;
    }
    if e.sw.faults && per_recv.values().any(|n| *n >= 2) {
        table[23] += 14;
    }
    // a transfer the admin re-sent by force has meanwhile failed: a recovery attempt is the interesting follow-up
    if e.m.doomed.iter().any(|id| e.w.st.packets[*id].state == PState::Refunded) {
        table[8] += 30;
    } else if !e.m.doomed.is_empty() && table[6] > 0 {
        table[6] += 30;
    }
    if e.sw.profile == Profile::ManyBatches {
        // tight cycle: unstake a little, land on the deadline, submit
        match e.last_kind {
            "unstake" if pend_nonempty => table[3] += 300,
            "to_deadline" if pend_nonempty => table[2] += 300,
            "submit_batch" if !holders.is_empty() => table[1] += 300,
            _ => {}
        }
    }
    match e.last_kind {
        "stray_callback" => {
            table[8] += 40; // recover
            if table[6] > 0 {
                table[6] += 10;
            }
        }
        "relay_timeout" | "lose_callback" => table[8] += 25,
        "relay_full" | "relay_ack" => {
            if refundable > 0 {
                table[8] += 20;
            }
        }
        "fault" => {
            table[0] += 30;
            table[9] += 10;
            table[8] += 10;
        }
        "op_deliver" => table[5] += 30,
        "submit_batch" => {
            if table[3] > 0 {
                table[3] += 25;
            }
            table[4] += 10;
        }
        "admin_breaker" | "breaker_by" => {
            // while halted: try everything that has to be refused
            for i in [0usize, 1, 2, 4, 5, 9] {
                if table[i] > 0 {
                    table[i] = table[i] * 3 + 6;
                }
            }
        }
        "admin_transfer" => table[14] += 30,
        "admin_resume" => {
            if e.m.l == 0 && e.m.n > 0 {
                table[9] += 40; // rewards must be refused while no LST exists
                table[0] += 20; // and the next stake sweeps the ownerless total
            }
        }
        "admin_update_config" => {
            table[4] += 12;
            table[9] += 12;
        }
        "recover" | "admin_forced_recover" => {
            if table[6] > 0 {
                table[6] += 20
            }
        }
        _ => {}
    }
    match rng.weighted(&table) {
        0 if rng.chance(1, 25) => Op::ExtraFunds { user: rng.below(nu) as u8, unstake: false, amount: amount(rng, e), extra_kind: rng.below(3) as u8 % 2, extra: rng.range(1, 1000) as u128 },
        1 if rng.chance(1, 25) => Op::ExtraFunds { user: *rng.pick(&holders), unstake: true, amount: amount(rng, e), extra_kind: rng.below(3) as u8 % 2, extra: rng.range(1, 1000) as u128 },
        0 if e.sw.profile == Profile::Backlog => Op::Stake { user: rng.below(nu) as u8, amount: amount(rng, e), rcpt: if rng.chance(1, 6) { Rcpt::Native(0) } else { Rcpt::Absent }, flag: None, expect: Expect::None, via: Via::Direct },
        0 => {
            let via = match rng.below(10) {
                0 | 1 => Via::Proxy,
                2 => Via::Hook,
                _ => Via::Direct,
            };
            let rcpt = if upgrade {
                match rng.below(4) {
                    0 => Rcpt::Proto(rng.below(8) as u8),
                    1 => Rcpt::SelfAddr,
                    _ => {
                        if via == Via::Direct {
                            Rcpt::Absent
                        } else {
                            Rcpt::Proto(rng.below(8) as u8)
                        }
                    }
                }
            } else {
                match rng.below(20) {
                    0..=6 => {
                        if via == Via::Direct || rng.chance(1, 8) {
                            Rcpt::Absent
                        } else {
                            Rcpt::Proto(rng.below(8) as u8)
                        }
                    }
                    7 | 8 => Rcpt::SelfAddr,
                    9..=11 => Rcpt::Proto(rng.below(8) as u8),
                    12..=15 => Rcpt::Native(rng.below(8) as u8),
                    16 => Rcpt::NativeUpper(rng.below(8) as u8),
                    17 => Rcpt::NativeStaker,
                    _ => Rcpt::Garbage(rng.below(8) as u8),
                }
            };
            let flag = match rng.below(4) {
                0 => Some(true),
                1 => Some(false),
                _ => {
                    if e.sw.native_prefix == e.sw.proto_prefix && rng.chance(1, 2) {
                        Some(true)
                    } else {
                        None
                    }
                }
            };
            let expect = match rng.below(10) {
                0 => Expect::Exact,
                1 => Expect::TooHigh,
                2 => Expect::Low,
                _ => Expect::None,
            };
            Op::Stake { user: rng.below(8) as u8, amount: amount(rng, e), rcpt, flag, expect, via }
        }
        1 if e.sw.profile == Profile::ManyBatches => Op::UnstakePct { user: *rng.pick(&holders), pct: 1 },
        1 => {
            let u = *rng.pick(&holders);
            if rng.chance(1, 3) {
                Op::Unstake { user: u, amount: amount(rng, e) }
            } else {
                Op::UnstakePct { user: u, pct: *rng.pick(&[1u8, 10, 33, 50, 100, 100]) }
            }
        }
        2 => Op::SubmitBatch { caller: if rng.chance(1, 2) { Who::User(rng.below(8) as u8) } else { who_any(rng) } },
        3 if e.sw.profile == Profile::ManyBatches => Op::ToDeadline { which: 0, delta: *rng.pick(&[0i64, 0, 1]) },
        3 => {
            let which = if e.m.nominee.is_some() && rng.chance(1, 2) {
                2
            } else if !submitted.is_empty() && (rng.chance(1, 2) || !pend_nonempty) {
                1
            } else if inflight > 0 && rng.chance(1, 6) {
                3
            } else {
                0
            };
            Op::ToDeadline { which, delta: *rng.pick(&[-1i64, 0, 0, 1, 1, 5, 600]) }
        }
        4 => {
            let mode = match rng.below(23) {
                0..=9 => Deliver::Exact,
                10 | 11 => Deliver::Short(rng.range(1, 99) as u8),
                12 | 13 => Deliver::Long(rng.range(101, 300) as u16),
                14 => Deliver::OtherChannel,
                15 | 16 => Deliver::OtherAccount,
                17 => Deliver::RoleSwap,
                18 | 19 => Deliver::DirectCall,
                20 => Deliver::WrongDenom,
                _ => Deliver::DirectBy(who_privileged(rng)),
            };
            let sel = if rng.chance(1, 8) { 200 + rng.below(50) as u8 } else { rng.below(8) as u8 };
            Op::OpDeliver { batch: sel, mode }
        }
        5 => {
            if !claimable.is_empty() && rng.chance(5, 6) {
                let (id, user) = rng.pick(&claimable).clone();
                let ui = (0..nu as u8).find(|i| e.user_addr(*i) == user).unwrap_or(0);
                Op::Withdraw { user: ui, batch: (id - 1) as u8 }
            } else if rng.chance(1, 2) {
                Op::Withdraw { user: rng.below(nu) as u8, batch: if rng.chance(1, 10) { 255 } else { rng.below(12) as u8 } }
            } else {
                Op::WithdrawAs { who: who_any(rng), batch: rng.below(12) as u8 }
            }
        }
        6 => {
            let fail = if e.sw.profile == Profile::Backlog { rng.chance(9, 10) } else { e.sw.faults && rng.chance(1, 5) };
            match rng.below(6) {
                0 if inflight > 0 => Op::RelayRecv { pkt: rng.below(8) as u8, ok: !fail },
                1 | 2 if recvd > 0 => Op::RelayAck { pkt: rng.below(8) as u8 },
                3 if recvd > 0 && e.sw.faults && e.sw.profile == Profile::Ibc && rng.chance(1, 6) => Op::LoseCallback { pkt: rng.below(8) as u8 },
                _ => {
                    if inflight > 0 {
                        Op::RelayFull { pkt: rng.below(8) as u8, ok: !fail }
                    } else {
                        Op::RelayAck { pkt: rng.below(8) as u8 }
                    }
                }
            }
        }
        7 => {
            if rng.chance(1, 2) {
                Op::ToDeadline { which: 3, delta: *rng.pick(&[0i64, 1, 40]) }
            } else {
                Op::RelayTimeout { pkt: rng.below(8) as u8 }
            }
        }
        8 => Op::Recover {
            caller: if rng.chance(1, 2) { Who::User(rng.below(8) as u8) } else { who_any(rng) },
            paginated: if e.sw.profile == Profile::Backlog { *rng.pick(&[Some(true), Some(true), Some(true), None, Some(false)]) } else { *rng.pick(&[None, Some(true), Some(false)]) },
            receiver: match rng.below(9) {
                8 => Some(100 + rng.below(8) as u8),
                0..=3 => None,
                4 => Some(250),
                5 => Some(if rng.chance(1, 2) { 251 } else { 253 + rng.below(2) as u8 }),
                6 => Some(252),
                _ => Some(rng.below(8) as u8),
            },
        },
        9 => {
            let mode = match rng.below(18) {
                0..=10 => Deliver::Exact,
                11 => Deliver::OtherChannel,
                12 | 13 => Deliver::OtherAccount,
                14 => Deliver::RoleSwap,
                15 => Deliver::DirectCall,
                16 => Deliver::WrongDenom,
                _ => Deliver::DirectBy(who_privileged(rng)),
            };
            // rewards are normally a small fraction of the stake; occasionally anything
            let a = if e.m.n > 0 && !rng.chance(1, 8) { (e.m.n / *rng.pick(&[10_000u128, 1000, 365, 100, 10, 3, 2])).max(1) + rng.range(0, 3) as u128 } else { amount(rng, e) };
            Op::OpRewards { amount: a.clamp(1, pow10(27)), mode }
        }
        10 => Op::Admin(AdminOp::UpdateConfig(cfg_sections(rng, e))),
        11 => {
            if rng.chance(1, 2) {
                Op::Admin(AdminOp::Breaker)
            } else {
                Op::IntruderBreaker { who: who_any(rng) }
            }
        }
        12 => {
            if rng.chance(1, 6) {
                Op::Admin(AdminOp::ResumeRewardOnly { r: if rng.chance(1, 2) { e.m.rewards / 2 } else { e.m.rewards + rng.range(1, 1000) as u128 } })
            } else if rng.chance(3, 4) {
                Op::Admin(AdminOp::ResumeSame)
            } else {
                let base = pow10(e.sw.scale as u32).max(1000);
                let n = base * rng.range(1, 999) as u128;
                let l = match rng.below(5) {
                    0 => n,
                    1 => (n / rng.range(2, 900) as u128).max(1),
                    2 => n * rng.range(2, 900) as u128,
                    3 => 0,
                    _ => n + rng.range(1, 7) as u128,
                };
                Op::Admin(AdminOp::Resume { n, l, r: rng.below(1000) as u128 })
            }
        }
        13 => match rng.below(4) {
            0 => Op::Admin(AdminOp::FeeWithdraw { amount: e.m.fees }),
            1 => Op::Admin(AdminOp::FeeWithdraw { amount: e.m.fees + 1 }),
            _ => Op::Admin(AdminOp::FeeWithdrawPct { pct: rng.range(1, 100) as u8 }),
        },
        14 => match rng.below(6) {
            0 | 1 => Op::Admin(AdminOp::Transfer(rng.below(4) as u8)),
            2 => Op::Admin(AdminOp::Revoke),
            3 => Op::ToDeadline { which: 2, delta: *rng.pick(&[-1i64, 0, 1]) },
            _ => Op::Admin(AdminOp::Accept),
        },
        15 => Op::Intruder { who: who_non_admin(rng), msg: admin_msg(rng, e) },
        16 => Op::Fault(match rng.below(12) {
            0..=3 => FaultOp::FailNextIbcSubmit { skip: rng.below(2) as u8 },
            4 => FaultOp::CloseChannel,
            5 | 6 => FaultOp::OpenChannel,
            7 => FaultOp::OracleRejects,
            8 => FaultOp::TokenFactoryRejects,
            9 => FaultOp::AbortAtStorageAccess(rng.below(40) as u16),
            10 => FaultOp::ReplyData(rng.below(2) as u8),
            _ => FaultOp::BackgroundTraffic(rng.range(1, 100) as u16),
        }),
        17 => Op::Stray(match rng.below(6) {
            0 => StrayKind::OtherChannelAck { success: rng.chance(1, 2) },
            1 => StrayKind::OtherChannelTimeout,
            2 => StrayKind::UnknownSeqAck { success: rng.chance(1, 2) },
            3 => StrayKind::UnknownSeqTimeout,
            4 => StrayKind::ClosedSeqAck { success: rng.chance(1, 2) },
            _ => StrayKind::ClosedSeqTimeout,
        }),
        18 => {
            let nb = e.m.batches.len() as u64;
            Op::Query(match rng.below(9) {
                0 | 1 => QueryOp::Batches {
                    start_after: if rng.chance(2, 3) { Some(rng.below(nb + 3)) } else { None },
                    limit: if rng.chance(2, 3) { Some(rng.range(1, 5) as u32) } else { None },
                    status: if rng.chance(2, 3) { Some(rng.below(3) as u8) } else { None },
                },
                2 | 3 => QueryOp::Walk { limit: rng.range(1, 4) as u32, status: if rng.chance(1, 2) { Some(rng.below(3) as u8) } else { None } },
                4 => QueryOp::ByIds((0..rng.below(6)).map(|_| rng.below(nb + 4)).collect()),
                5 => QueryOp::Queue { start_after: if rng.chance(1, 2) { Some(rng.below(20)) } else { None }, limit: if rng.chance(1, 2) { Some(rng.range(1, 4) as u32) } else { None } },
                6 => QueryOp::QueueWalk { limit: rng.range(1, 3) as u32 },
                7 => QueryOp::Hostile(rng.below(20) as u8),
                _ => QueryOp::Requests(if rng.chance(1, 6) { 200 + rng.below(4) as u8 } else { rng.below(nu) as u8 }),
            })
        }
        19 => Op::OpSlash { pct: rng.range(1, 30) as u8 },
        20 if e.sw.faults && rng.chance(1, 3) => Op::Donate { user: rng.below(nu) as u8, kind: *rng.pick(&[0u8, 0, 1, 1, 2]), amount: amount(rng, e) },
        20 => Op::Advance { secs: *rng.pick(&[1u64, 6, 60, 3600, 86_400, 1001]) },
        21 => {
            if rng.chance(1, 2) {
                Op::HostileExec { who: who_any(rng), kind: rng.below(12) as u8 }
            } else if rng.chance(1, 2) {
                Op::HostileReply { id_sel: rng.below(6) as u8, ok: rng.chance(1, 2), data: rng.below(4) as u8 }
            } else {
                Op::Query(QueryOp::Hostile(rng.below(20) as u8))
            }
        }
        22 => Op::MigrateMid { synthetic_replies: rng.below(4) as u8 },
        23 => {
            let honest = !(e.sw.profile == Profile::Ibc && rng.chance(1, 5));
            // aim at the receiver that has the most refunded transfers waiting
            let mut per: std::collections::BTreeMap<String, u64> = Default::default();
            for p in open.iter().filter(|p| p.state == PState::Refunded && !e.m.recovered.contains(&p.id)) {
                *per.entry(p.receiver.clone()).or_insert(0) += 1;
            }
            let best = per.iter().max_by_key(|(_, n)| **n).map(|(r, _)| r.clone());
            let receiver = match best {
                Some(r) if rng.chance(4, 5) => {
                    if r == e.m.cfg.staker {
                        None
                    } else {
                        (0..e.n_users() as u8).find(|i| e.a.users[*i as usize].1 == r).map(Some).unwrap_or(None)
                    }
                }
                _ => {
                    if rng.chance(1, 4) {
                        Some(rng.below(8) as u8)
                    } else {
                        None
                    }
                }
            };
            let ids: Vec<u64> = match rng.below(8) {
                0 => vec![0],
                1 => vec![0, 1],
                2 => vec![0, 1, 0],
                3 => vec![1, 1],
                4 => vec![0, 1, 2],
                5 => vec![2, 0, 1, 0],
                6 => {
                    if rng.chance(1, 2) {
                        vec![]
                    } else {
                        vec![0, 1000 + rng.below(5)]
                    }
                }
                _ => (0..rng.range(1, 4)).map(|_| rng.below(4)).collect(),
            };
            Op::Admin(AdminOp::ForcedRecover { ids, receiver, honest })
        }
        _ => {
            if rng.chance(1, 2) {
                Op::Admin(AdminOp::AddValidator(rng.below(5) as u8))
            } else {
                Op::Admin(AdminOp::RemoveValidator(rng.below(5) as u8))
            }
        }
    }
}
