//! The simulated world: chain runtime with CosmWasm sub-message/reply semantics, bank, token
//! factory (osmosis / miniwasm flavour), IBC transfer + ibc-hooks, native chain, oracle and
//! poolmanager stubs. Real contract code is called through its public entry points only.

use crate::host::{guarded, Guarded, SimApi, SimStorage};
use crate::util::*;
use cosmwasm_std::{
    Addr, BankMsg, Binary, BlockInfo, Coin, ContractInfo, CosmosMsg, Deps, DepsMut, Empty, Env,
    MessageInfo, QuerierWrapper, Reply, ReplyOn, Response, SubMsg, SubMsgResponse, SubMsgResult,
    Timestamp, TransactionInfo,
};
use std::collections::BTreeMap;

pub const MINIWASM: bool = cfg!(feature = "miniwasm");

pub const TF_OSMO: &str = "/osmosis.tokenfactory.v1beta1.";
pub const TF_MINI: &str = "/miniwasm.tokenfactory.v1.";

#[derive(Clone, Debug, Default, PartialEq)]
pub struct Bank {
    pub bal: BTreeMap<(String, String), u128>,
    pub supply: BTreeMap<String, u128>,
}

impl Bank {
    pub fn balance(&self, addr: &str, denom: &str) -> u128 {
        *self.bal.get(&(addr.to_string(), denom.to_string())).unwrap_or(&0)
    }
    pub fn supply(&self, denom: &str) -> u128 {
        *self.supply.get(denom).unwrap_or(&0)
    }
    pub fn mint(&mut self, addr: &str, denom: &str, amt: u128) {
        *self.bal.entry((addr.to_string(), denom.to_string())).or_insert(0) += amt;
        *self.supply.entry(denom.to_string()).or_insert(0) += amt;
    }
    pub fn burn(&mut self, addr: &str, denom: &str, amt: u128) -> Result<(), String> {
        let b = self.balance(addr, denom);
        if b < amt {
            return Err(format!("insufficient funds: {} has {}{} needs {}", addr, b, denom, amt));
        }
        self.bal.insert((addr.to_string(), denom.to_string()), b - amt);
        *self.supply.get_mut(denom).unwrap() -= amt;
        Ok(())
    }
    pub fn send(&mut self, from: &str, to: &str, denom: &str, amt: u128) -> Result<(), String> {
        let b = self.balance(from, denom);
        if b < amt {
            return Err(format!("insufficient funds: {} has {}{} needs {}", from, b, denom, amt));
        }
        self.bal.insert((from.to_string(), denom.to_string()), b - amt);
        *self.bal.entry((to.to_string(), denom.to_string())).or_insert(0) += amt;
        Ok(())
    }
}

/// The chain's query interface as a contract sees it: bank balances come from the simulated ledger (a
/// contract that consults its own balance sees what it really holds, unsolicited deposits included);
/// everything else is unsupported, as no contract here has a reason to ask.
pub struct SimQuerier<'a> {
    pub bank: &'a Bank,
}

impl<'a> cosmwasm_std::Querier for SimQuerier<'a> {
    fn raw_query(&self, bin_request: &[u8]) -> cosmwasm_std::QuerierResult {
        use cosmwasm_std::{BankQuery, ContractResult, QueryRequest, SystemError, SystemResult};
        let req: QueryRequest<Empty> = match cosmwasm_std::from_json(bin_request) {
            Ok(r) => r,
            Err(e) => return SystemResult::Err(SystemError::InvalidRequest { error: e.to_string(), request: bin_request.into() }),
        };
        let coin = |d: &str, a: u128| serde_json::json!({"denom": d, "amount": a.to_string()});
        let out = match req {
            QueryRequest::Bank(BankQuery::Balance { address, denom }) => serde_json::json!({"amount": coin(&denom, self.bank.balance(&address, &denom))}),
            QueryRequest::Bank(BankQuery::AllBalances { address }) => {
                let v: Vec<serde_json::Value> = self.bank.bal.iter().filter(|((a, _), b)| *a == address && **b > 0).map(|((_, d), b)| coin(d, *b)).collect();
                serde_json::json!({"amount": v})
            }
            _ => return SystemResult::Err(SystemError::UnsupportedRequest { kind: "only bank balance queries are served".into() }),
        };
        SystemResult::Ok(ContractResult::Ok(out.to_string().into_bytes().into()))
    }
}

#[derive(Clone, Debug, PartialEq)]
pub struct Chan {
    pub open: bool,
    pub next_seq: u64,
}

#[derive(Clone, Copy, Debug, PartialEq, Eq)]
pub enum PState {
    /// sent, nothing happened yet on the destination
    InFlight,
    /// received successfully on the destination, ack not yet relayed back
    RecvOk,
    /// receive failed on the destination (error ack written), ack not yet relayed back
    RecvErr,
    /// success ack processed on the source (callback delivered)
    AckedOk,
    /// error ack or timeout processed on the source: funds refunded (callback delivered)
    Refunded,
}

#[derive(Clone, Copy, Debug, PartialEq, Eq, PartialOrd, Ord)]
pub enum Origin {
    Stake,
    Rewards,
    Recover,
    Treasury,
    Other,
}

#[derive(Clone, Debug, PartialEq)]
pub struct Packet {
    pub id: usize,
    pub channel: String,
    pub seq: u64,
    pub sender: String,
    pub receiver: String,
    pub denom: String,
    pub amount: u128,
    pub timeout_ns: u64,
    pub memo: String,
    pub callback: Option<String>,
    pub state: PState,
    pub timed_out: bool,
    pub origin: Origin,
    pub tx_no: u64,
}

#[derive(Clone, Copy, Debug, PartialEq, Eq)]
pub enum InState {
    InFlight,
    Done,
    Refunded,
}

/// native chain -> protocol chain transfer carrying an ibc-hooks wasm memo
#[derive(Clone, Debug, PartialEq)]
pub struct InPacket {
    pub id: usize,
    pub dest_channel: String,
    pub sender: String,
    pub receiver: String,
    pub amount: u128,
    pub denom_on_dest: String,
    pub memo: String,
    pub state: InState,
    pub timeout_ns: u64,
}

#[derive(Clone, Debug, PartialEq)]
pub struct Unbond {
    pub batch: u64,
    pub amount: u128,
    pub complete_at_ns: u64,
}

#[derive(Clone, Debug, Default, PartialEq)]
pub struct Native {
    pub bal: BTreeMap<(String, String), u128>,
    pub escrow: BTreeMap<String, u128>, // native-denom escrow per channel-agnostic (single channel world)
    pub delegated: u128,
    pub unbonding: Vec<Unbond>,
    pub skew_s: i64,
}

impl Native {
    pub fn balance(&self, addr: &str, denom: &str) -> u128 {
        *self.bal.get(&(addr.to_string(), denom.to_string())).unwrap_or(&0)
    }
    pub fn credit(&mut self, addr: &str, denom: &str, amt: u128) {
        *self.bal.entry((addr.to_string(), denom.to_string())).or_insert(0) += amt;
    }
    pub fn debit(&mut self, addr: &str, denom: &str, amt: u128) -> Result<(), String> {
        let b = self.balance(addr, denom);
        if b < amt {
            return Err("native: insufficient funds".into());
        }
        self.bal.insert((addr.to_string(), denom.to_string()), b - amt);
        Ok(())
    }
}

#[derive(Clone, Debug, PartialEq)]
pub enum Effect {
    BankSend { from: String, to: String, denom: String, amount: u128 },
    TfCreate { sender: String, subdenom: String, type_url: String },
    TfMint { sender: String, denom: String, amount: u128, to: String, type_url: String },
    TfBurn { sender: String, denom: String, amount: u128, from: String, type_url: String },
    IbcSend { pkt: usize },
    OraclePost { sender: String, contract: String, msg: String },
    Swap { sender: String, exact_in: bool, routes: Vec<(u64, String)>, coin: (String, u128), limit: String },
    Exec { contract: String, sender: String },
    ReplyCalled { id: u64, ok: bool },
}

#[derive(Clone, Debug, PartialEq)]
pub struct WState {
    pub now_ns: u64,
    pub height: u64,
    pub tx_index: u32,
    pub tx_no: u64,
    pub bank: Bank,
    pub tf_denoms: BTreeMap<String, String>,
    pub channels: BTreeMap<String, Chan>,
    pub packets: Vec<Packet>,
    pub inpackets: Vec<InPacket>,
    pub staking: SimStorage,
    pub treasury: SimStorage,
    pub native: Native,
    pub log: Vec<Effect>,
    pub oracle_posts: Vec<(u64, String)>,
}

#[derive(Clone, Debug, Default)]
pub struct Faults {
    pub fail_ibc_submit: u32, // number of upcoming MsgTransfer submissions to fail
    pub skip_ibc_submit: u32, // let this many submissions pass before failing (to hit the 2nd transfer of a stake)
    pub oracle_rejects: u32,
    pub tf_rejects: u32,
    pub abort_at_access: Option<u64>,
    /// 1: next transfer response has no data, 2: garbage data
    pub reply_data_mode: u8,
    pub fired_reply_data: u64,
    pub fired_ibc_submit: u64,
    pub fired_oracle: u64,
    pub fired_tf: u64,
    pub fired_gas: u64,
}

#[derive(Clone, Debug)]
pub struct PanicRecord {
    pub contract: &'static str,
    pub entry: &'static str,
    pub msg: String,
    pub input: String,
}

#[derive(Clone, Copy, Debug, PartialEq, Eq)]
pub enum Which {
    Staking,
    Treasury,
}

#[derive(Clone, Debug)]
pub struct Setup {
    pub proto_prefix: String,
    pub native_prefix: String,
    pub valoper_prefix: String,
    pub channel: String,
    pub ibc_denom: String,
    pub native_denom: String,
    pub subdenom: String,
    pub staking_addr: String,
    pub treasury_addr: String,
    pub oracle_addr: String,
    pub sink_addr: String,
}

pub struct World {
    pub st: WState,
    pub setup: Setup,
    pub api: SimApi,
    pub faults: Faults,
    pub panics: Vec<PanicRecord>,
    pub cur_origin: Origin,
    pub fault_hit_in_tx: bool,
    pub zero_ibc_ok: bool,
    pub zero_tf_ok: bool,
    /// bank accepts any non-empty recipient string (a real bank refuses foreign prefixes and bad checksums)
    pub lenient_bank: bool,
    /// block times carry a sub-second part (real block times do; every deadline of the contracts is in whole
    /// seconds, so nothing may depend on it)
    pub sub_second: bool,
}

#[derive(Clone, Debug)]
pub struct TxResult {
    pub ok: bool,
    pub err: String,
    pub panicked: bool,
    pub out_of_gas: bool,
    pub env_fault: bool,
    pub effects: Vec<Effect>,
    pub attrs: Vec<(String, String)>,
}

impl TxResult {
    pub fn sent(&self, from: &str, to: &str, denom: &str) -> u128 {
        self.effects
            .iter()
            .map(|e| match e {
                Effect::BankSend { from: f, to: t, denom: d, amount } if f == from && t == to && d == denom => *amount,
                _ => 0,
            })
            .sum()
    }
    pub fn attr(&self, k: &str) -> Option<&str> {
        self.attrs.iter().find(|a| a.0 == k).map(|a| a.1.as_str())
    }
}

pub const MSG_TRANSFER_SCHEMA: &[(u32, PbKind, bool)] = &[
    (1, PbKind::Str, false),
    (2, PbKind::Str, false),
    (3, PbKind::Msg, false),
    (4, PbKind::Str, false),
    (5, PbKind::Str, false),
    (6, PbKind::Msg, false),
    (7, PbKind::U64, false),
    (8, PbKind::Str, false),
];

fn err<T>(s: impl Into<String>) -> Result<T, String> {
    Err(s.into())
}

impl World {
    pub fn new(setup: Setup, start_ns: u64) -> World {
        let mut channels = BTreeMap::new();
        channels.insert(setup.channel.clone(), Chan { open: true, next_seq: 1 });
        World {
            st: WState {
                now_ns: start_ns,
                height: 1000,
                tx_index: 0,
                tx_no: 0,
                bank: Bank::default(),
                tf_denoms: BTreeMap::new(),
                channels,
                packets: vec![],
                inpackets: vec![],
                staking: SimStorage::default(),
                treasury: SimStorage::default(),
                native: Native::default(),
                log: vec![],
                oracle_posts: vec![],
            },
            api: SimApi { prefix: setup.proto_prefix.clone() },
            setup,
            faults: Faults::default(),
            panics: vec![],
            cur_origin: Origin::Other,
            fault_hit_in_tx: false,
            zero_ibc_ok: false,
            zero_tf_ok: false,
            lenient_bank: false,
            sub_second: false,
        }
    }

    pub fn now_s(&self) -> u64 {
        self.st.now_ns / 1_000_000_000
    }
    pub fn native_now_ns(&self) -> u64 {
        (self.st.now_ns as i128 + self.st.native.skew_s as i128 * 1_000_000_000) as u64
    }

    pub fn advance(&mut self, secs: u64) {
        // block time is nanoseconds in a u64: the simulated clock never passes the year 2286
        let horizon: u64 = 10_000_000_000;
        let secs = secs.min(horizon.saturating_sub(self.now_s())).max(1);
        self.st.height += 1 + secs / 6;
        if self.sub_second {
            // whole seconds advance exactly by `secs`; the fraction is a fixed function of the height
            let frac = (self.st.height.wrapping_mul(618_033_989)) % 1_000_000_000;
            self.st.now_ns = (self.now_s() + secs) * 1_000_000_000 + if frac % 7 == 0 { 999_999_999 } else { frac };
        } else {
            self.st.now_ns += secs * 1_000_000_000;
        }
        self.st.tx_index = 0;
    }

    fn env(&self, which: Which, with_tx: bool) -> Env {
        Env {
            block: BlockInfo {
                height: self.st.height,
                time: Timestamp::from_nanos(self.st.now_ns),
                chain_id: "sim-1".to_string(),
            },
            transaction: if with_tx { Some(TransactionInfo { index: self.st.tx_index }) } else { None },
            contract: ContractInfo {
                address: Addr::unchecked(match which {
                    Which::Staking => self.setup.staking_addr.clone(),
                    Which::Treasury => self.setup.treasury_addr.clone(),
                }),
            },
        }
    }

    fn which_of(&self, addr: &str) -> Option<Which> {
        if addr == self.setup.staking_addr {
            Some(Which::Staking)
        } else if addr == self.setup.treasury_addr {
            Some(Which::Treasury)
        } else {
            None
        }
    }

    fn take_store(&mut self, which: Which) -> SimStorage {
        match which {
            Which::Staking => std::mem::take(&mut self.st.staking),
            Which::Treasury => std::mem::take(&mut self.st.treasury),
        }
    }
    fn put_store(&mut self, which: Which, s: SimStorage) {
        match which {
            Which::Staking => self.st.staking = s,
            Which::Treasury => self.st.treasury = s,
        }
    }

    /// Call an entry point with panic capture. `f` gets DepsMut+Env.
    fn call_entry<F>(&mut self, which: Which, entry: &'static str, input: &str, with_tx: bool, f: F) -> Result<Response, String>
    where
        F: FnOnce(DepsMut, Env) -> Result<Response, String>,
    {
        let mut store = self.take_store(which);
        if let Some(k) = self.faults.abort_at_access.take() {
            store.abort_at.set(Some(store.accesses.get() + k));
        }
        let env = self.env(which, with_tx);
        let api = self.api.clone();
        let querier = SimQuerier { bank: &self.st.bank };
        let r = guarded(|| {
            let deps = DepsMut { storage: &mut store, api: &api, querier: QuerierWrapper::new(&querier) };
            f(deps, env)
        });
        let armed = store.abort_at.get();
        store.abort_at.set(None);
        if let Some(_k) = armed {
            // fault was armed but the call finished before the k-th access: it does not carry over
        }
        self.put_store(which, store);
        match r {
            Guarded::Done(x) => x,
            Guarded::OutOfGas => {
                self.faults.fired_gas += 1;
                self.fault_hit_in_tx = true;
                err("out of gas (injected)")
            }
            Guarded::Panicked(m) => {
                self.panics.push(PanicRecord {
                    contract: if which == Which::Staking { "staking" } else { "treasury" },
                    entry,
                    msg: m.clone(),
                    input: input.chars().take(400).collect(),
                });
                err(format!("panic: {}", m))
            }
        }
    }

    pub fn query(&mut self, which: Which, msg: &str) -> Result<Vec<u8>, String> {
        let store = self.take_store(which);
        let env = self.env(which, false);
        let api = self.api.clone();
        let querier = SimQuerier { bank: &self.st.bank };
        let bytes = msg.as_bytes().to_vec();
        let r = guarded(|| {
            let deps = Deps { storage: &store, api: &api, querier: QuerierWrapper::new(&querier) };
            match which {
                Which::Staking => match cosmwasm_std::from_json::<staking::msg::QueryMsg>(&bytes) {
                    Ok(m) => staking::contract::query(deps, env, m).map(|b| b.to_vec()).map_err(|e| e.to_string()),
                    Err(e) => Err(format!("parse: {}", e)),
                },
                Which::Treasury => match cosmwasm_std::from_json::<treasury::msg::QueryMsg>(&bytes) {
                    Ok(m) => treasury::contract::query(deps, env, m).map(|b| b.to_vec()).map_err(|e| e.to_string()),
                    Err(e) => Err(format!("parse: {}", e)),
                },
            }
        });
        self.put_store(which, store);
        match r {
            Guarded::Done(x) => x,
            Guarded::OutOfGas => err("out of gas (injected)"),
            Guarded::Panicked(m) => {
                self.panics.push(PanicRecord {
                    contract: if which == Which::Staking { "staking" } else { "treasury" },
                    entry: "query",
                    msg: m.clone(),
                    input: msg.chars().take(400).collect(),
                });
                err(format!("panic: {}", m))
            }
        }
    }

    // --------------------------------------------------------------------------------------------
    // transactions
    // --------------------------------------------------------------------------------------------

    fn begin(&mut self) -> WState {
        self.st.log.clear();
        self.fault_hit_in_tx = false;
        self.st.tx_no += 1;
        self.st.clone()
    }

    fn finish(&mut self, snapshot: WState, r: Result<Vec<(String, String)>, String>) -> TxResult {
        match r {
            Ok(attrs) => {
                self.st.tx_index += 1;
                TxResult {
                    ok: true,
                    err: String::new(),
                    panicked: false,
                    out_of_gas: false,
                    env_fault: self.fault_hit_in_tx,
                    effects: self.st.log.clone(),
                    attrs,
                }
            }
            Err(e) => {
                let tx_no = self.st.tx_no;
                let tx_index = self.st.tx_index;
                self.st = snapshot;
                self.st.tx_no = tx_no;
                self.st.tx_index = tx_index + 1;
                self.st.log.clear();
                TxResult {
                    ok: false,
                    panicked: e.contains("panic: "),
                    out_of_gas: e.contains("out of gas (injected)"),
                    err: e,
                    env_fault: self.fault_hit_in_tx,
                    effects: vec![],
                    attrs: vec![],
                }
            }
        }
    }

    /// Top-level MsgExecuteContract signed by `sender`.
    pub fn tx_execute(&mut self, contract: &str, sender: &str, funds: &[(String, u128)], msg: &str) -> TxResult {
        let snap = self.begin();
        let r = self.exec_contract(contract, sender, funds, msg.as_bytes());
        self.finish(snap, r)
    }

    pub fn tx_instantiate(&mut self, which: Which, sender: &str, msg: &str) -> TxResult {
        let snap = self.begin();
        let info = MessageInfo { sender: Addr::unchecked(sender), funds: vec![] };
        let bytes = msg.as_bytes().to_vec();
        let r = self.call_entry(which, "instantiate", msg, true, |deps, env| match which {
            Which::Staking => match cosmwasm_std::from_json::<staking::msg::InstantiateMsg>(&bytes) {
                Ok(m) => staking::contract::instantiate(deps, env, info, m).map_err(|e| e.to_string()),
                Err(e) => Err(format!("parse: {}", e)),
            },
            Which::Treasury => match cosmwasm_std::from_json::<treasury::msg::InstantiateMsg>(&bytes) {
                Ok(m) => treasury::contract::instantiate(deps, env, info, m).map_err(|e| e.to_string()),
                Err(e) => Err(format!("parse: {}", e)),
            },
        });
        let addr = match which {
            Which::Staking => self.setup.staking_addr.clone(),
            Which::Treasury => self.setup.treasury_addr.clone(),
        };
        let r = r.and_then(|resp| self.process_response(which, &addr, resp));
        self.finish(snap, r)
    }

    pub fn tx_migrate(&mut self, which: Which, msg: &str) -> TxResult {
        let snap = self.begin();
        let bytes = msg.as_bytes().to_vec();
        let r = self.call_entry(which, "migrate", msg, true, |deps, env| match which {
            Which::Staking => match cosmwasm_std::from_json::<staking::msg::MigrateMsg>(&bytes) {
                Ok(m) => staking::contract::migrate(deps, env, m).map_err(|e| e.to_string()),
                Err(e) => Err(format!("parse: {}", e)),
            },
            Which::Treasury => match cosmwasm_std::from_json::<treasury::msg::MigrateMsg>(&bytes) {
                Ok(m) => treasury::contract::migrate(deps, env, m).map_err(|e| e.to_string()),
                Err(e) => Err(format!("parse: {}", e)),
            },
        });
        let addr = match which {
            Which::Staking => self.setup.staking_addr.clone(),
            Which::Treasury => self.setup.treasury_addr.clone(),
        };
        let r = r.and_then(|resp| self.process_response(which, &addr, resp));
        self.finish(snap, r)
    }

    /// Raw sudo call on the staking contract (used for stray callbacks).
    pub fn tx_sudo(&mut self, msg: &str, with_tx: bool) -> TxResult {
        let snap = self.begin();
        let r = self.sudo_staking(msg, with_tx);
        self.finish(snap, r)
    }

    /// Raw reply call on the staking contract (hostile input for C16).
    pub fn tx_reply(&mut self, id: u64, ok: bool, data: Option<Vec<u8>>) -> TxResult {
        let snap = self.begin();
        let reply = Reply {
            id,
            result: if ok {
                SubMsgResult::Ok(SubMsgResponse { events: vec![], data: data.map(Binary::from) })
            } else {
                SubMsgResult::Err("injected".into())
            },
        };
        let r = self
            .call_entry(Which::Staking, "reply", &format!("reply id={} ok={}", id, ok), true, |deps, env| {
                staking::contract::reply(deps, env, reply).map_err(|e| e.to_string())
            })
            .and_then(|resp| {
                let a = self.setup.staking_addr.clone();
                self.process_response(Which::Staking, &a, resp)
            });
        self.finish(snap, r)
    }

    fn sudo_staking(&mut self, msg: &str, with_tx: bool) -> Result<Vec<(String, String)>, String> {
        let bytes = msg.as_bytes().to_vec();
        let resp = self.call_entry(Which::Staking, "sudo", msg, with_tx, |deps, env| {
            match cosmwasm_std::from_json::<staking::msg::SudoMsg>(&bytes) {
                Ok(m) => staking::contract::sudo(deps, env, m).map_err(|e| e.to_string()),
                Err(e) => Err(format!("parse: {}", e)),
            }
        })?;
        let a = self.setup.staking_addr.clone();
        self.process_response(Which::Staking, &a, resp)
    }

    fn exec_contract(&mut self, contract: &str, sender: &str, funds: &[(String, u128)], msg: &[u8]) -> Result<Vec<(String, String)>, String> {
        // 1. move funds
        for (d, a) in funds {
            self.st.bank.send(sender, contract, d, *a)?;
        }
        self.st.log.push(Effect::Exec { contract: contract.to_string(), sender: sender.to_string() });
        if contract == self.setup.oracle_addr {
            if self.faults.oracle_rejects > 0 {
                self.faults.oracle_rejects -= 1;
                self.faults.fired_oracle += 1;
                self.fault_hit_in_tx = true;
                return err("oracle rejects (injected)");
            }
            let m = String::from_utf8_lossy(msg).to_string();
            self.st.log.push(Effect::OraclePost { sender: sender.to_string(), contract: contract.to_string(), msg: m.clone() });
            self.st.oracle_posts.push((self.st.tx_no, m));
            return Ok(vec![]);
        }
        if contract == self.setup.sink_addr {
            return Ok(vec![]);
        }
        let which = match self.which_of(contract) {
            Some(w) => w,
            None => return err(format!("no such contract {}", contract)),
        };
        let mut coins: Vec<Coin> = funds.iter().filter(|f| f.1 > 0).map(|(d, a)| Coin::new(*a, d.clone())).collect();
        coins.sort_by(|a, b| a.denom.cmp(&b.denom));
        let info = MessageInfo { sender: Addr::unchecked(sender), funds: coins };
        let bytes = msg.to_vec();
        let input = String::from_utf8_lossy(msg).to_string();
        let resp = self.call_entry(which, "execute", &input, true, |deps, env| match which {
            Which::Staking => match cosmwasm_std::from_json::<staking::msg::ExecuteMsg>(&bytes) {
                Ok(m) => staking::contract::execute(deps, env, info, m).map_err(|e| e.to_string()),
                Err(e) => Err(format!("parse: {}", e)),
            },
            Which::Treasury => match cosmwasm_std::from_json::<treasury::msg::ExecuteMsg>(&bytes) {
                Ok(m) => treasury::contract::execute(deps, env, info, m).map_err(|e| e.to_string()),
                Err(e) => Err(format!("parse: {}", e)),
            },
        })?;
        self.process_response(which, contract, resp)
    }

    fn process_response(&mut self, which: Which, contract: &str, resp: Response) -> Result<Vec<(String, String)>, String> {
        let attrs: Vec<(String, String)> = resp.attributes.iter().map(|a| (a.key.clone(), a.value.clone())).collect();
        for sub in resp.messages {
            self.dispatch(which, contract, sub)?;
        }
        Ok(attrs)
    }

    fn dispatch(&mut self, which: Which, contract: &str, sub: SubMsg) -> Result<(), String> {
        let needs_checkpoint = matches!(sub.reply_on, ReplyOn::Always | ReplyOn::Error);
        let checkpoint = if needs_checkpoint { Some(self.st.clone()) } else { None };
        let res = self.handle_msg(contract, sub.msg);
        match (res, sub.reply_on) {
            (Ok(_), ReplyOn::Never) | (Ok(_), ReplyOn::Error) => Ok(()),
            (Ok(data), ReplyOn::Always) | (Ok(data), ReplyOn::Success) => {
                self.st.log.push(Effect::ReplyCalled { id: sub.id, ok: true });
                self.call_reply(which, contract, Reply {
                    id: sub.id,
                    result: SubMsgResult::Ok(SubMsgResponse { events: vec![], data: data.map(Binary::from) }),
                })
            }
            (Err(e), ReplyOn::Never) | (Err(e), ReplyOn::Success) => Err(e),
            (Err(e), ReplyOn::Always) | (Err(e), ReplyOn::Error) => {
                self.st = checkpoint.unwrap();
                self.st.log.push(Effect::ReplyCalled { id: sub.id, ok: false });
                self.call_reply(which, contract, Reply { id: sub.id, result: SubMsgResult::Err(e) })
            }
        }
    }

    fn call_reply(&mut self, which: Which, contract: &str, reply: Reply) -> Result<(), String> {
        let input = format!("reply id={}", reply.id);
        let resp = self.call_entry(which, "reply", &input, true, |deps, env| match which {
            Which::Staking => staking::contract::reply(deps, env, reply).map_err(|e| e.to_string()),
            Which::Treasury => Err("treasury has no reply entry point".to_string()),
        })?;
        self.process_response(which, contract, resp).map(|_| ())
    }

    fn tf_prefix(&self) -> &'static str {
        if MINIWASM {
            TF_MINI
        } else {
            TF_OSMO
        }
    }

    /// Execute one message emitted by `contract`. Returns optional response data.
    fn handle_msg(&mut self, contract: &str, msg: CosmosMsg) -> Result<Option<Vec<u8>>, String> {
        match msg {
            CosmosMsg::Bank(BankMsg::Send { to_address, amount }) => {
                if !(self.lenient_bank && !to_address.is_empty()) && b32_decode(&to_address).map(|d| d.0 != self.setup.proto_prefix).unwrap_or(true) {
                    return err(format!("bank: invalid recipient {}", to_address));
                }
                for c in amount {
                    self.st.bank.send(contract, &to_address, &c.denom, c.amount.u128())?;
                    self.st.log.push(Effect::BankSend { from: contract.to_string(), to: to_address.clone(), denom: c.denom.clone(), amount: c.amount.u128() });
                }
                Ok(None)
            }
            CosmosMsg::Stargate { type_url, value } => self.handle_stargate(contract, &type_url, value.as_slice()),
            other => err(format!("unsupported message {:?}", other)),
        }
    }

    fn handle_stargate(&mut self, contract: &str, type_url: &str, value: &[u8]) -> Result<Option<Vec<u8>>, String> {
        let tfp = self.tf_prefix();
        if type_url == "/cosmos.bank.v1beta1.MsgSend" {
            let m = PbMsg::parse_canonical(value, &[(1, PbKind::Str, false), (2, PbKind::Str, false), (3, PbKind::Msg, true)])?;
            let from = m.str(1);
            let to = m.str(2);
            if from != contract {
                return err("MsgSend: signer is not the contract");
            }
            if !(self.lenient_bank && !to.is_empty()) && b32_decode(&to).map(|d| d.0 != self.setup.proto_prefix).unwrap_or(true) {
                return err(format!("MsgSend: invalid recipient {}", to));
            }
            for c in m.all_bytes(3) {
                let (d, a) = pb_coin(&c)?;
                self.st.bank.send(&from, &to, &d, a)?;
                self.st.log.push(Effect::BankSend { from: from.clone(), to: to.clone(), denom: d, amount: a });
            }
            return Ok(None);
        }
        if type_url == "/cosmwasm.wasm.v1.MsgExecuteContract" {
            let m = PbMsg::parse_canonical(value, &[(1, PbKind::Str, false), (2, PbKind::Str, false), (3, PbKind::Bytes, false), (5, PbKind::Msg, true)])?;
            if m.str(1) != contract {
                return err("MsgExecuteContract: signer is not the contract");
            }
            let mut funds = vec![];
            for c in m.all_bytes(5) {
                funds.push(pb_coin(&c)?);
            }
            // bech32 is case-insensitive as long as one case is used throughout: an all-upper-case spelling
            // names the same account (the SDK decodes it to the same bytes)
            let mut target = m.str(2);
            if !target.chars().any(|c| c.is_ascii_lowercase()) {
                target = target.to_lowercase();
            }
            self.exec_contract(&target, contract, &funds, &m.bytes(3))?;
            return Ok(None);
        }
        if type_url == "/ibc.applications.transfer.v1.MsgTransfer" {
            let data = self.ibc_send(contract, value)?;
            if self.faults.reply_data_mode == 1 {
                self.faults.reply_data_mode = 0;
                self.faults.fired_reply_data += 1;
                self.fault_hit_in_tx = true;
                return Ok(None);
            }
            return Ok(Some(data));
        }
        if let Some(name) = type_url.strip_prefix(tfp) {
            if self.faults.tf_rejects > 0 {
                self.faults.tf_rejects -= 1;
                self.faults.fired_tf += 1;
                self.fault_hit_in_tx = true;
                return err("tokenfactory rejects (injected)");
            }
            return self.handle_tf(contract, type_url, name, value);
        }
        if type_url == "/osmosis.poolmanager.v1beta1.MsgSwapExactAmountIn" || type_url == "/osmosis.poolmanager.v1beta1.MsgSwapExactAmountOut" {
            let exact_in = type_url.ends_with("In");
            let m = PbMsg::parse_canonical(value, &[(1, PbKind::Str, false), (2, PbKind::Msg, true), (3, if exact_in { PbKind::Msg } else { PbKind::Str }, false), (4, if exact_in { PbKind::Str } else { PbKind::Msg }, false)])?;
            if m.str(1) != contract {
                return err("swap: signer is not the contract");
            }
            let mut routes = vec![];
            for r in m.all_bytes(2) {
                let rm = PbMsg::parse_canonical(&r, &[(1, PbKind::U64, false), (2, PbKind::Str, false)])?;
                routes.push((rm.u64(1), rm.str(2)));
            }
            let (coin_field, limit_field) = if exact_in { (3, 4) } else { (4, 3) };
            let coin = pb_coin(&m.bytes(coin_field))?;
            let limit = m.str(limit_field);
            self.st.log.push(Effect::Swap { sender: contract.to_string(), exact_in, routes, coin, limit });
            return Ok(None);
        }
        err(format!("unknown type url {}", type_url))
    }

    fn handle_tf(&mut self, contract: &str, type_url: &str, name: &str, value: &[u8]) -> Result<Option<Vec<u8>>, String> {
        match name {
            "MsgCreateDenom" => {
                let m = PbMsg::parse_canonical(value, &[(1, PbKind::Str, false), (2, PbKind::Str, false)])?;
                if m.str(1) != contract {
                    return err("tf: signer is not the contract");
                }
                let sub = m.str(2);
                if sub.len() > 44 || sub.is_empty() {
                    return err("tf: invalid subdenom");
                }
                let denom = format!("factory/{}/{}", contract, sub);
                if self.st.tf_denoms.contains_key(&denom) {
                    return err("tf: denom exists");
                }
                self.st.tf_denoms.insert(denom, contract.to_string());
                self.st.log.push(Effect::TfCreate { sender: contract.to_string(), subdenom: sub, type_url: type_url.to_string() });
                Ok(None)
            }
            "MsgMint" => {
                let m = PbMsg::parse_canonical(value, &[(1, PbKind::Str, false), (2, PbKind::Msg, false), (3, PbKind::Str, false)])?;
                if m.str(1) != contract {
                    return err("tf: signer is not the contract");
                }
                if !m.has(2) {
                    return err("tf: no amount");
                }
                let (denom, amt) = pb_coin(&m.bytes(2))?;
                if self.st.tf_denoms.get(&denom).map(|a| a.as_str()) != Some(contract) {
                    return err("tf: not admin of denom");
                }
                if amt == 0 && !self.zero_tf_ok {
                    return err("tf: zero amount");
                }
                let mut to = m.str(3);
                if to.is_empty() {
                    to = contract.to_string();
                }
                self.st.bank.mint(&to, &denom, amt);
                self.st.log.push(Effect::TfMint { sender: contract.to_string(), denom, amount: amt, to, type_url: type_url.to_string() });
                Ok(None)
            }
            "MsgBurn" => {
                let schema: &[(u32, PbKind, bool)] = if MINIWASM {
                    &[(1, PbKind::Str, false), (2, PbKind::Msg, false)]
                } else {
                    &[(1, PbKind::Str, false), (2, PbKind::Msg, false), (3, PbKind::Str, false)]
                };
                let m = PbMsg::parse_canonical(value, schema)?;
                if m.str(1) != contract {
                    return err("tf: signer is not the contract");
                }
                if !m.has(2) {
                    return err("tf: no amount");
                }
                let (denom, amt) = pb_coin(&m.bytes(2))?;
                if self.st.tf_denoms.get(&denom).map(|a| a.as_str()) != Some(contract) {
                    return err("tf: not admin of denom");
                }
                if amt == 0 {
                    return err("tf: zero amount");
                }
                let mut from = if MINIWASM { String::new() } else { m.str(3) };
                if from.is_empty() {
                    from = contract.to_string();
                }
                self.st.bank.burn(&from, &denom, amt)?;
                self.st.log.push(Effect::TfBurn { sender: contract.to_string(), denom, amount: amt, from, type_url: type_url.to_string() });
                Ok(None)
            }
            _ => err(format!("tf: unknown message {}", name)),
        }
    }

    // --------------------------------------------------------------------------------------------
    // IBC transfer (source side)
    // --------------------------------------------------------------------------------------------

    fn ibc_send(&mut self, contract: &str, value: &[u8]) -> Result<Vec<u8>, String> {
        let m = PbMsg::parse_canonical(value, MSG_TRANSFER_SCHEMA)?;
        if self.faults.fail_ibc_submit > 0 {
            if self.faults.skip_ibc_submit > 0 {
                self.faults.skip_ibc_submit -= 1;
            } else {
                self.faults.fail_ibc_submit -= 1;
                self.faults.fired_ibc_submit += 1;
                self.fault_hit_in_tx = true;
                return err("ibc: submission failed (injected)");
            }
        }
        if m.str(1) != "transfer" {
            return err("ibc: bad port");
        }
        let channel = m.str(2);
        if m.str(4) != contract {
            return err("ibc: signer is not the contract");
        }
        if !m.has(3) {
            return err("ibc: no token");
        }
        let (denom, amt) = pb_coin(&m.bytes(3))?;
        if amt == 0 && !self.zero_ibc_ok {
            return err("ibc: amount must be positive");
        }
        let receiver = m.str(5);
        if receiver.is_empty() {
            return err("ibc: empty receiver");
        }
        let timeout = m.u64(7);
        if timeout == 0 && !m.has(6) {
            return err("ibc: no timeout");
        }
        if timeout != 0 && timeout <= self.st.now_ns {
            return err("ibc: timeout in the past");
        }
        let ch = match self.st.channels.get_mut(&channel) {
            Some(c) => c,
            None => return err("ibc: channel not found"),
        };
        if !ch.open {
            self.fault_hit_in_tx = true;
            return err("ibc: channel closed");
        }
        let seq = ch.next_seq;
        ch.next_seq += 1;
        // vouchers of this channel are burned, everything else is escrowed
        if denom == self.setup.ibc_denom && channel == self.setup.channel {
            self.st.bank.burn(contract, &denom, amt)?;
        } else {
            let esc = format!("escrow/{}", channel);
            self.st.bank.send(contract, &esc, &denom, amt)?;
        }
        let memo = m.str(8);
        // ibc-hooks: register the callback only when the memo names the sender itself
        let callback = serde_json::from_str::<serde_json::Value>(&memo)
            .ok()
            .and_then(|v| v.get("ibc_callback").and_then(|c| c.as_str().map(|s| s.to_string())))
            .filter(|c| c == contract);
        let id = self.st.packets.len();
        self.st.packets.push(Packet {
            id,
            channel,
            seq,
            sender: contract.to_string(),
            receiver,
            denom,
            amount: amt,
            timeout_ns: timeout,
            memo,
            callback,
            state: PState::InFlight,
            timed_out: false,
            origin: self.cur_origin,
            tx_no: self.st.tx_no,
        });
        self.st.log.push(Effect::IbcSend { pkt: id });
        if self.faults.reply_data_mode == 2 {
            self.faults.reply_data_mode = 0;
            self.faults.fired_reply_data += 1;
            self.fault_hit_in_tx = true;
            return Ok(vec![0xff, 0xff, 0xff, 0xff]);
        }
        Ok(pb_encode(&[PbField { no: 1, val: PbVal::Varint(seq) }]))
    }

    /// Background traffic of other users on the same channel: consumes sequence numbers.
    pub fn background_traffic(&mut self, n: u64) {
        let ch = self.setup.channel.clone();
        if let Some(c) = self.st.channels.get_mut(&ch) {
            c.next_seq += n;
        }
    }

    /// Destination-side receive of an outbound packet. `inject_err` forces an error acknowledgement.
    pub fn relay_recv(&mut self, pkt: usize, inject_err: bool) -> bool {
        let native_now = self.native_now_ns();
        let p = self.st.packets[pkt].clone();
        if p.state != PState::InFlight {
            return false;
        }
        if p.timeout_ns != 0 && native_now >= p.timeout_ns {
            return false; // too late, can only time out
        }
        let valid_receiver = b32_decode(&p.receiver).map(|d| d.0 == self.setup.native_prefix).unwrap_or(false);
        if inject_err || !valid_receiver {
            self.st.packets[pkt].state = PState::RecvErr;
            return true;
        }
        if p.denom == self.setup.ibc_denom && p.channel == self.setup.channel {
            // unescrow native tokens
            let e = self.st.native.escrow.entry(self.setup.native_denom.clone()).or_insert(0);
            if *e < p.amount {
                // cannot happen with a consistent world; treat as error ack
                self.st.packets[pkt].state = PState::RecvErr;
                return true;
            }
            *e -= p.amount;
            let nd = self.setup.native_denom.clone();
            self.st.native.credit(&p.receiver, &nd, p.amount);
        } else {
            let voucher = format!("transfer/{}/{}", counterparty(&p.channel), p.denom);
            self.st.native.credit(&p.receiver, &voucher, p.amount);
        }
        self.st.packets[pkt].state = PState::RecvOk;
        true
    }

    /// Source-side processing of the acknowledgement: refund on error, then the ibc-hooks callback.
    /// Atomic, as on Osmosis: when the callback fails the whole acknowledgement tx fails.
    pub fn relay_ack(&mut self, pkt: usize, with_tx: bool) -> Option<TxResult> {
        let p = self.st.packets[pkt].clone();
        let success = match p.state {
            PState::RecvOk => true,
            PState::RecvErr => false,
            _ => return None,
        };
        let snap = self.begin();
        let r = (|| {
            if !success {
                self.refund(&p)?;
                self.st.packets[pkt].state = PState::Refunded;
            } else {
                self.st.packets[pkt].state = PState::AckedOk;
            }
            if let Some(cb) = &p.callback {
                if self.which_of(cb) == Some(Which::Staking) {
                    let ack = if success { "{\"result\":\"AQ==\"}" } else { "{\"error\":\"ABCI code: 1: error handling packet\"}" };
                    let msg = serde_json::json!({"ibc_lifecycle_complete": {"ibc_ack": {"channel": p.channel, "sequence": p.seq, "ack": ack, "success": success}}});
                    return self.sudo_staking(&msg.to_string(), with_tx);
                }
            }
            Ok(vec![])
        })();
        Some(self.finish(snap, r))
    }

    /// F6: the acknowledgement is processed (refund happens) but the ibc-hooks callback is lost.
    pub fn relay_ack_lost(&mut self, pkt: usize) -> bool {
        let p = self.st.packets[pkt].clone();
        if p.state != PState::RecvErr {
            return false;
        }
        if self.refund(&p).is_err() {
            return false;
        }
        self.st.packets[pkt].state = PState::Refunded;
        true
    }

    pub fn relay_timeout(&mut self, pkt: usize, with_tx: bool) -> Option<TxResult> {
        let p = self.st.packets[pkt].clone();
        if p.state != PState::InFlight {
            return None;
        }
        if p.timeout_ns == 0 || self.native_now_ns() < p.timeout_ns {
            return None;
        }
        let snap = self.begin();
        let mut dropped: Option<String> = None;
        let r = (|| {
            self.refund(&p)?;
            self.st.packets[pkt].state = PState::Refunded;
            self.st.packets[pkt].timed_out = true;
            if let Some(cb) = &p.callback {
                if self.which_of(cb) == Some(Which::Staking) {
                    let msg = serde_json::json!({"ibc_lifecycle_complete": {"ibc_timeout": {"channel": p.channel, "sequence": p.seq}}});
                    // Osmosis x/ibc-hooks, OnTimeoutPacketOverride: the refund has happened; the contract is
                    // called in a cached context; if it errors, the error is only emitted as an event
                    // ("retrying this will not help"), the callback registration is deleted and the relayer's
                    // transaction succeeds. (An erroring *acknowledgement* callback, by contrast, fails the
                    // transaction and can be relayed again: see relay_ack.)
                    let inner = self.st.clone();
                    return match self.sudo_staking(&msg.to_string(), with_tx) {
                        Ok(a) => Ok(a),
                        // running out of gas is not an error return: it aborts the relayer's whole transaction
                        Err(e) if e.contains("out of gas (injected)") => Err(e),
                        Err(e) => {
                            let log = std::mem::take(&mut self.st.log);
                            self.st = inner;
                            self.st.log = log;
                            dropped = Some(e);
                            Ok(vec![])
                        }
                    };
                }
            }
            Ok(vec![])
        })();
        let mut res = self.finish(snap, r);
        if let Some(e) = dropped {
            res.attrs.push(("ibc-timeout-callback-error".to_string(), e));
        }
        Some(res)
    }

    fn refund(&mut self, p: &Packet) -> Result<(), String> {
        if p.denom == self.setup.ibc_denom && p.channel == self.setup.channel {
            self.st.bank.mint(&p.sender, &p.denom, p.amount);
        } else {
            let esc = format!("escrow/{}", p.channel);
            self.st.bank.send(&esc, &p.sender, &p.denom, p.amount)?;
        }
        Ok(())
    }

    // --------------------------------------------------------------------------------------------
    // inbound: native chain -> protocol chain with ibc-hooks wasm memo
    // --------------------------------------------------------------------------------------------

    /// Native-side send: escrows native tokens of `sender`. Returns the inbound packet id.
    pub fn native_send_hook(&mut self, sender: &str, contract: &str, amount: u128, msg: &serde_json::Value, dest_channel: &str) -> Result<usize, String> {
        if amount == 0 {
            return err("native: zero amount");
        }
        let nd = self.setup.native_denom.clone();
        self.st.native.debit(sender, &nd, amount)?;
        *self.st.native.escrow.entry(nd).or_insert(0) += amount;
        let memo = serde_json::json!({"wasm": {"contract": contract, "msg": msg}}).to_string();
        let id = self.st.inpackets.len();
        self.st.inpackets.push(InPacket {
            id,
            dest_channel: dest_channel.to_string(),
            sender: sender.to_string(),
            receiver: contract.to_string(),
            amount,
            denom_on_dest: if dest_channel == self.setup.channel { self.setup.ibc_denom.clone() } else { format!("ibc/{}", hex(&sha2_of(&format!("transfer/{}/{}", dest_channel, self.setup.native_denom))).to_uppercase()) },
            memo,
            state: InState::InFlight,
            timeout_ns: self.native_now_ns() + 600 * 1_000_000_000,
        });
        Ok(id)
    }

    /// Protocol-side receive with ibc-hooks: mint the voucher to the intermediate account and execute
    /// the contract from it. On failure everything is reverted and the native side refunds the sender.
    pub fn relay_inbound(&mut self, id: usize, force_timeout: bool) -> Option<TxResult> {
        let p = self.st.inpackets[id].clone();
        if p.state != InState::InFlight {
            return None;
        }
        if force_timeout {
            if self.st.now_ns < p.timeout_ns {
                return None;
            }
            self.native_refund(id);
            return Some(TxResult { ok: false, err: "inbound timeout".into(), panicked: false, out_of_gas: false, env_fault: true, effects: vec![], attrs: vec![] });
        }
        if self.st.now_ns >= p.timeout_ns {
            return None;
        }
        let snap = self.begin();
        let r = (|| {
            let v: serde_json::Value = serde_json::from_str(&p.memo).map_err(|e| e.to_string())?;
            let w = v.get("wasm").ok_or("no wasm memo")?;
            let contract = w.get("contract").and_then(|c| c.as_str()).ok_or("no contract")?.to_string();
            if contract != p.receiver {
                return err("ibc-hooks: receiver must be the contract");
            }
            let msg = w.get("msg").ok_or("no msg")?.to_string();
            let intermediate = hooks_intermediate_sender(&p.dest_channel, &p.sender, &self.setup.proto_prefix);
            self.st.bank.mint(&intermediate, &p.denom_on_dest, p.amount);
            self.exec_contract(&contract, &intermediate, &[(p.denom_on_dest.clone(), p.amount)], msg.as_bytes())
        })();
        let res = self.finish(snap, r);
        if res.ok {
            self.st.inpackets[id].state = InState::Done;
        } else {
            self.native_refund(id);
        }
        Some(res)
    }

    fn native_refund(&mut self, id: usize) {
        let p = self.st.inpackets[id].clone();
        let nd = self.setup.native_denom.clone();
        let e = self.st.native.escrow.entry(nd.clone()).or_insert(0);
        *e -= p.amount;
        self.st.native.credit(&p.sender, &nd, p.amount);
        self.st.inpackets[id].state = InState::Refunded;
    }

    /// Faucet: a user bridges native tokens over the channel (escrow on the native chain, voucher on the
    /// protocol chain).
    pub fn faucet(&mut self, addr: &str, amt: u128) {
        let d = self.setup.ibc_denom.clone();
        self.st.bank.mint(addr, &d, amt);
        *self.st.native.escrow.entry(self.setup.native_denom.clone()).or_insert(0) += amt;
    }
}

pub fn counterparty(ch: &str) -> String {
    // the native chain's name for the other end of the channel; only used to label vouchers
    format!("{}-cp", ch)
}

pub fn sha2_of(s: &str) -> Vec<u8> {
    use sha2::{Digest, Sha256};
    Sha256::digest(s.as_bytes()).to_vec()
}
