//! C04, pure half: the two public ratio helpers sampled over the whole 128-bit range against
//! independent 256-bit arithmetic, with inputs biased to rounding boundaries. (The system half —
//! that LiquidStake / SubmitBatch apply these formulas along histories — lives in the engine.)

use crate::engine::Violation;
use crate::host::{guarded, Guarded};
use crate::ops::ustr;
use crate::run::Eval;
use crate::util::*;
use cosmwasm_std::Uint128;
use serde::{Deserialize, Serialize};

#[derive(Serialize, Deserialize, Clone, Debug, PartialEq)]
pub struct ACase {
    pub triples: Vec<Triple>,
}

#[derive(Serialize, Deserialize, Clone, Debug, PartialEq)]
pub struct Triple {
    #[serde(with = "ustr")]
    pub n: u128,
    #[serde(with = "ustr")]
    pub l: u128,
    #[serde(with = "ustr")]
    pub a: u128,
}

fn magnitude(rng: &mut Rng) -> u128 {
    let bits = rng.range(1, 127);
    let v = rng.u128() >> (128 - bits);
    v.max(1)
}

pub fn gen(seed: u64) -> ACase {
    let mut rng = Rng::new(seed);
    let mut triples = vec![];
    for _ in 0..32 {
        let n = magnitude(&mut rng);
        let l = match rng.below(6) {
            0 => n,
            1 => n / rng.range(1, 1000) as u128 + 1,
            2 => n.saturating_mul(rng.range(1, 1000) as u128),
            3 => n.saturating_add(rng.range(0, 3) as u128),
            4 => n.saturating_sub(rng.range(0, 3) as u128).max(1),
            _ => magnitude(&mut rng),
        };
        let a = match rng.below(7) {
            0 => 1,
            1 => (n / l.max(1)).max(1),
            2 => (n / l.max(1)).max(1) + 1,
            3 => (n / l.max(1)).saturating_sub(1).max(1),
            4 => (n / gcd(n, l)).saturating_mul(rng.range(1, 5) as u128).saturating_add(rng.range(0, 2) as u128).saturating_sub(1).max(1),
            5 => l,
            _ => magnitude(&mut rng),
        };
        triples.push(Triple { n, l, a });
    }
    // the empty pool and the 1:1 convention
    triples.push(Triple { n: 0, l: 0, a: magnitude(&mut rng) });
    triples.push(Triple { n: 0, l: magnitude(&mut rng), a: magnitude(&mut rng) });
    ACase { triples }
}

fn gcd(mut a: u128, mut b: u128) -> u128 {
    while b != 0 {
        let t = a % b;
        a = b;
        b = t;
    }
    a.max(1)
}

pub fn eval(c: &ACase) -> Eval {
    let mut ev = Eval::default();
    let mut h = Fnv::default();
    for (i, t) in c.triples.iter().enumerate() {
        ev.stats.ops += 1;
        let step = i + 1;
        let (n, l, a) = (t.n, t.l, t.a);
        // mint = floor(a*l/n), 1:1 when n == 0; only where representable
        let want_mint = if n == 0 { Some(a) } else { mul_div(a, l, n) };
        if let Some(wm) = want_mint {
            match guarded(|| staking::helpers::compute_mint_amount(Uint128::new(n), Uint128::new(l), Uint128::new(a)).u128()) {
                Guarded::Done(got) => {
                    if got != wm {
                        ev.viol.push(Violation { stop: true, prop: "C04", clause: "mint_floor_pure", step, msg: format!("compute_mint_amount(N={}, L={}, a={}) = {} but floor(a*L/N) = {}", n, l, a, got, wm) });
                    }
                    if n > 0 && l > 0 {
                        // no dilution: (n+a)*l >= n*(l+mint)   (skip when sums overflow 128 bits)
                        if let (Some(n2), Some(l2)) = (n.checked_add(a), l.checked_add(got)) {
                            if cmp_prod(n2, l, n, l2) == std::cmp::Ordering::Less {
                                ev.viol.push(Violation { stop: true, prop: "C04", clause: "stake_no_dilution_pure", step, msg: format!("N={} L={} a={} mint={} lowers the redemption rate", n, l, a, got) });
                            }
                            // immediate round trip through the unbond formula returns <= a
                            if got > 0 {
                                if let Guarded::Done(back) = guarded(|| staking::helpers::compute_unbond_amount(Uint128::new(n2), Uint128::new(l2), Uint128::new(got)).u128()) {
                                    if back > a {
                                        ev.viol.push(Violation { stop: true, prop: "C04", clause: "no_round_trip_profit_pure", step, msg: format!("N={} L={}: staking {} mints {} which redeems for {}", n, l, a, got, back) });
                                    }
                                    ev.stats.tx_ok += 1;
                                }
                            }
                        }
                    }
                    h.u128(got);
                }
                Guarded::Panicked(m) => ev.viol.push(Violation { stop: true, prop: "C04", clause: "mint_floor_pure", step, msg: format!("compute_mint_amount(N={}, L={}, a={}) panicked although the result {} is representable: {}", n, l, a, wm, m) }),
                Guarded::OutOfGas => {}
            }
        }
        // unbond = floor(n*b/l) for a batch b <= l
        if l > 0 {
            let b = if a <= l { a } else { a % l + 1 }.min(l);
            let want = mul_div(n, b, l);
            if let Some(wu) = want {
                match guarded(|| staking::helpers::compute_unbond_amount(Uint128::new(n), Uint128::new(l), Uint128::new(b)).u128()) {
                    Guarded::Done(got) => {
                        if got != wu {
                            ev.viol.push(Violation { stop: true, prop: "C04", clause: "set_aside_floor_pure", step, msg: format!("compute_unbond_amount(N={}, L={}, b={}) = {} but floor(N*b/L) = {}", n, l, b, got, wu) });
                        }
                        // remaining holders: (n-got)*l >= n*(l-b)
                        if got <= n && l > b && cmp_prod(n - got, l, n, l - b) == std::cmp::Ordering::Less {
                            ev.viol.push(Violation { stop: true, prop: "C04", clause: "submit_no_dilution_pure", step, msg: format!("N={} L={} b={} set aside {} lowers the rate of the remaining holders", n, l, b, got) });
                        }
                        h.u128(got);
                    }
                    Guarded::Panicked(m) => ev.viol.push(Violation { stop: true, prop: "C04", clause: "set_aside_floor_pure", step, msg: format!("compute_unbond_amount(N={}, L={}, b={}) panicked: {}", n, l, b, m) }),
                    Guarded::OutOfGas => {}
                }
            }
        }
    }
    ev.hash = h.0;
    ev.nontrivial = true;
    ev
}
