//! Operation handlers: each executes one operation against the real contracts, evaluates the
//! per-operation refinement clauses and updates the reference model.

use crate::engine::*;
use crate::ops::*;
use crate::util::*;
use crate::world::*;
use serde_json::{json, Value};
use std::collections::BTreeMap;

pub fn op_kind(op: &Op) -> &'static str {
    match op {
        Op::Advance { .. } => "advance",
        Op::ToDeadline { .. } => "to_deadline",
        Op::Stake { via: Via::Direct, .. } => "stake_direct",
        Op::Stake { via: Via::Proxy, .. } => "stake_proxy",
        Op::Stake { via: Via::Hook, .. } => "stake_hook",
        Op::Unstake { .. } | Op::UnstakePct { .. } => "unstake",
        Op::SubmitBatch { .. } => "submit_batch",
        Op::Withdraw { .. } | Op::WithdrawAs { .. } => "withdraw",
        Op::Recover { .. } => "recover",
        Op::OpDeliver { .. } => "op_deliver",
        Op::OpRewards { .. } => "op_rewards",
        Op::OpSlash { .. } => "op_slash",
        Op::RelayRecv { .. } => "relay_recv",
        Op::RelayAck { .. } => "relay_ack",
        Op::RelayTimeout { .. } => "relay_timeout",
        Op::RelayFull { .. } => "relay_full",
        Op::LoseCallback { .. } => "lose_callback",
        Op::Stray(_) => "stray_callback",
        Op::Admin(AdminOp::Breaker) => "admin_breaker",
        Op::Admin(AdminOp::Resume { .. }) | Op::Admin(AdminOp::ResumeSame) | Op::Admin(AdminOp::ResumeRewardOnly { .. }) => "admin_resume",
        Op::Admin(AdminOp::UpdateConfig(_)) => "admin_update_config",
        Op::Admin(AdminOp::FeeWithdraw { .. }) | Op::Admin(AdminOp::FeeWithdrawPct { .. }) => "admin_fee_withdraw",
        Op::Admin(AdminOp::AddValidator(_)) | Op::Admin(AdminOp::RemoveValidator(_)) => "admin_validator",
        Op::Admin(AdminOp::Transfer(_)) => "admin_transfer",
        Op::Admin(AdminOp::Revoke) => "admin_revoke",
        Op::Admin(AdminOp::Accept) => "nominee_accept",
        Op::Admin(AdminOp::ForcedRecover { .. }) => "admin_forced_recover",
        Op::Intruder { .. } => "intruder",
        Op::IntruderBreaker { .. } => "breaker_by",
        Op::Fault(_) => "fault",
        Op::Query(_) => "query",
        Op::MigrateMid { .. } => "migrate_mid",
        Op::HostileReply { .. } => "hostile_reply",
        Op::HostileExec { .. } => "hostile_exec",
        Op::Donate { .. } => "donate",
        Op::ExtraFunds { .. } => "extra_funds",
    }
}

fn valid_under(addr: &str, prefix: &str) -> bool {
    b32_decode(addr).map(|d| d.0 == prefix).unwrap_or(false)
}

const E27: u128 = 1_000_000_000_000_000_000_000_000_000;

impl Engine {
    pub fn who_addr(&self, who: Who) -> Option<String> {
        Some(match who {
            Who::Admin => self.m.admin.clone(),
            Who::FormerAdmin => self.m.former_admins.last()?.clone(),
            Who::Nominee => self.m.nominee.as_ref()?.0.clone(),
            Who::Monitor(i) => {
                if self.m.cfg.monitors.is_empty() {
                    return None;
                }
                self.m.cfg.monitors[i as usize % self.m.cfg.monitors.len()].clone()
            }
            Who::RemovedMonitor => self.m.removed_monitors.last()?.clone(),
            Who::StakerHook => self.hook_of(&self.m.cfg.staker),
            Who::CollectorHook => self.hook_of(&self.m.cfg.collector),
            Who::SelfContract => self.s_addr(),
            Who::Treasury => self.w.setup.treasury_addr.clone(),
            Who::Oracle => self.w.setup.oracle_addr.clone(),
            Who::User(i) => self.user_addr(i),
            Who::Proxy(i) => self.a.proxies[i as usize % self.a.proxies.len()].clone(),
            Who::Candidate(i) => self.a.cands[i as usize % self.a.cands.len()].clone(),
        })
    }

    /// a channel id that is certainly not the configured one (the configuration may have moved to any number)
    pub fn other_channel(&self, offset: u64) -> String {
        let mut n = self.sw.channel.wrapping_add(offset);
        loop {
            let c = format!("channel-{}", n);
            if c != self.m.cfg.channel && !self.w.st.channels.contains_key(&c) {
                return c;
            }
            n = n.wrapping_add(7919);
        }
    }

    pub fn n_users(&self) -> usize {
        (self.sw.users as usize).clamp(1, self.a.users.len())
    }

    /// users, then proxies
    pub fn user_addr(&self, i: u8) -> String {
        let n = self.n_users();
        let k = i as usize % (n + 2);
        if k < n {
            self.a.users[k].0.clone()
        } else {
            self.a.proxies[k - n].clone()
        }
    }

    /// rate n/l within [1e-3, 1e3] (or the empty pool)
    pub fn rate_ok(n: u128, l: u128) -> bool {
        if l == 0 {
            return true;
        }
        n > 0 && cmp_prod(n, 1000, l, 1) != std::cmp::Ordering::Less && cmp_prod(n, 1, l, 1000) != std::cmp::Ordering::Greater
    }

    fn domain_ok(&self, amounts: &[u128]) -> bool {
        if amounts.iter().any(|a| *a > E27) {
            return false;
        }
        let (n, l) = (self.m.n, self.m.l);
        if n > 100 * E27 || l > 100 * E27 {
            return false;
        }
        if l == 0 {
            return true; // handled by the contract without any ratio (n swept)
        }
        if n == 0 {
            return false; // rate 0
        }
        // rate n/l within [1e-3, 1e3]
        cmp_prod(n, 1000, l, 1) != std::cmp::Ordering::Less && cmp_prod(n, 1, l, 1000) != std::cmp::Ordering::Greater
    }

    fn exec(&mut self, sender: &str, funds: &[(String, u128)], msg: &Value, origin: Origin) -> TxResult {
        self.w.cur_origin = origin;
        let s = self.s_addr();
        let r = self.w.tx_execute(&s, sender, funds, &msg.to_string());
        self.w.cur_origin = Origin::Other;
        self.after_tx(r)
    }

    fn after_tx(&mut self, r: TxResult) -> TxResult {
        self.stats.txs += 1;
        if r.ok {
            self.stats.tx_ok += 1;
        }
        if r.env_fault {
            self.stats.probe("tx_hit_by_env_fault");
        }
        self.note_panics();
        self.last_tx = Some(r.clone());
        r
    }

    fn open_packets(&self) -> Vec<usize> {
        let s = self.s_addr();
        self.w.st.packets.iter().filter(|p| p.sender == s).map(|p| p.id).collect()
    }

    pub fn step(&mut self, op: &Op) {
        self.step_no += 1;
        self.stats.ops += 1;
        let pre = self.obs.clone();
        self.last_tx = None;
        self.totals_prop = "C04";
        self.in_domain = self.domain_ok(&[]);
        let kind = op_kind(op);
        let t0 = self.w.st.now_ns;
        match op {
            Op::Advance { secs } => self.w.advance((*secs).max(1)),
            Op::ToDeadline { which, delta } => self.op_to_deadline(*which, *delta),
            Op::Stake { user, amount, rcpt, flag, expect, via } => self.op_stake(*user, *amount, rcpt, *flag, *expect, *via),
            Op::Unstake { user, amount } => self.op_unstake(*user, *amount),
            Op::UnstakePct { user, pct } => {
                let a = self.user_addr(*user);
                let bal = self.w.st.bank.balance(&a, &self.lst);
                let amt = mul_div(bal, (*pct).min(100) as u128, 100).unwrap_or(0);
                self.op_unstake(*user, amt)
            }
            Op::SubmitBatch { caller } => self.op_submit(*caller),
            Op::Withdraw { user, batch } => {
                let a = self.user_addr(*user);
                self.op_withdraw(a, *batch)
            }
            Op::WithdrawAs { who, batch } => {
                if let Some(a) = self.who_addr(*who) {
                    self.op_withdraw(a, *batch)
                }
            }
            Op::Recover { caller, paginated, receiver } => self.op_recover(*caller, *paginated, *receiver),
            Op::OpDeliver { batch, mode } => self.op_deliver(*batch, *mode),
            Op::OpRewards { amount, mode } => self.op_rewards(*amount, *mode),
            Op::OpSlash { pct } => {
                if !self.sw.honest {
                    let st = self.m.cfg.staker.clone();
                    let nd = self.w.setup.native_denom.clone();
                    let b = self.w.st.native.balance(&st, &nd);
                    let cut = mul_div(b, (*pct).min(100) as u128, 100).unwrap_or(0);
                    let _ = self.w.st.native.debit(&st, &nd, cut);
                    self.stats.fault("F10_slash");
                }
            }
            Op::RelayRecv { pkt, ok } => {
                let c: Vec<usize> = self.open_packets().into_iter().filter(|i| self.w.st.packets[*i].state == PState::InFlight).collect();
                if !c.is_empty() {
                    let id = c[*pkt as usize % c.len()];
                    let ok = *ok && !self.m.doomed.contains(&id);
                    if self.w.relay_recv(id, !ok) && !ok {
                        self.stats.fault("F2_error_ack");
                    }
                }
            }
            Op::RelayAck { pkt } => {
                let c: Vec<usize> = self.open_packets().into_iter().filter(|i| matches!(self.w.st.packets[*i].state, PState::RecvOk | PState::RecvErr)).collect();
                if !c.is_empty() {
                    let id = c[*pkt as usize % c.len()];
                    if let Some(r) = self.w.relay_ack(id, id % 2 == 0) {
                        self.after_tx(r);
                    }
                }
            }
            Op::RelayFull { pkt, ok } => {
                let c: Vec<usize> = self.open_packets().into_iter().filter(|i| self.w.st.packets[*i].state == PState::InFlight).collect();
                if !c.is_empty() {
                    let id = c[*pkt as usize % c.len()];
                    let ok = *ok && !self.m.doomed.contains(&id);
                    if self.w.relay_recv(id, !ok) {
                        if !ok {
                            self.stats.fault("F2_error_ack");
                        }
                        if let Some(r) = self.w.relay_ack(id, id % 2 == 0) {
                            self.after_tx(r);
                        }
                    }
                }
            }
            Op::RelayTimeout { pkt } => {
                let nn = self.w.native_now_ns();
                let c: Vec<usize> = self.open_packets().into_iter().filter(|i| { let p = &self.w.st.packets[*i]; p.state == PState::InFlight && p.timeout_ns != 0 && nn >= p.timeout_ns }).collect();
                if !c.is_empty() {
                    let id = c[*pkt as usize % c.len()];
                    if let Some(r) = self.w.relay_timeout(id, id % 2 == 1) {
                        self.stats.fault("F3_timeout");
                        let r = self.after_tx(r);
                        if let (true, Some(e)) = (r.ok, r.attr("ibc-timeout-callback-error")) {
                            // ibc-hooks drops a timeout callback that errors: the refund has happened and the
                            // contract will never hear of it (from here on it is a lost callback, F6)
                            let e = e.to_string();
                            self.m.lost_cb.insert(id);
                            self.stats.probe("timeout_callback_errored_and_was_dropped");
                            let m = format!("the timeout callback of tracked transfer {} (sequence {}) was answered with an error ({}); ibc-hooks does not deliver a failed timeout callback again, so the transfer stays recorded as in flight although its funds were refunded, and no non-admin can recover them", id, self.w.st.packets[id].seq, e);
                            self.vo("C07", "timeout_callback_accepted", m.clone());
                            // the refunded value is from now on in the contract's account without being recorded as refundable
                            let pk = self.w.st.packets[id].clone();
                            if pk.denom == self.lst {
                                self.vo("C03", "refundable_lst_is_recorded", m);
                            } else if pk.denom == self.ibc() {
                                self.vo("C02", "refundable_value_is_recorded", m.clone());
                                if pk.receiver == self.m.cfg.staker {
                                    self.vo("C01", "refunded_stake_is_recorded", m);
                                }
                            }
                        }
                    }
                }
            }
            Op::LoseCallback { pkt } => {
                let c: Vec<usize> = self.open_packets().into_iter().filter(|i| self.w.st.packets[*i].state == PState::RecvErr).collect();
                if !c.is_empty() && self.sw.faults {
                    let id = c[*pkt as usize % c.len()];
                    if self.w.relay_ack_lost(id) {
                        self.m.lost_cb.insert(id);
                        self.stats.fault("F6_lost_callback");
                    }
                }
            }
            Op::Stray(k) => self.op_stray(*k),
            Op::Admin(a) => {
                let sender = match a {
                    AdminOp::Accept => self.m.nominee.as_ref().map(|n| n.0.clone()),
                    _ => Some(self.m.admin.clone()),
                };
                if let Some(s) = sender {
                    self.admin_op(s, a)
                }
            }
            Op::Intruder { who, msg } => {
                if let Some(s) = self.who_addr(*who) {
                    self.stats.fault("F14_impersonation");
                    self.admin_op(s, msg)
                }
            }
            Op::IntruderBreaker { who } => {
                if let Some(s) = self.who_addr(*who) {
                    self.op_breaker(s)
                }
            }
            Op::Fault(f) => self.op_fault(f),
            Op::Query(q) => self.op_query(q),
            Op::MigrateMid { synthetic_replies } => self.op_migrate_mid(*synthetic_replies),
            Op::HostileReply { id_sel, ok, data } => self.op_hostile_reply(*id_sel, *ok, *data),
            Op::HostileExec { who, kind } => self.op_hostile_exec(*who, *kind),
            Op::Donate { user, kind, amount } => self.op_donate(*user, *kind, *amount),
            Op::ExtraFunds { user, unstake, amount, extra_kind, extra } => self.op_extra_funds(*user, *unstake, *amount, *extra_kind, *extra),
        }
        self.note_panics();
        let ok = self.last_tx.as_ref().map(|t| t.ok).unwrap_or(true);
        let e = self.stats.op_kinds.entry(kind).or_insert((0, 0));
        e.0 += 1;
        if ok {
            e.1 += 1;
        }
        self.stats.sim_seconds += (self.w.st.now_ns - t0) / 1_000_000_000;
        self.last_kind = kind;
        self.trace.str(kind);
        self.trace.u64(ok as u64);
        if self.keep_events {
            let line = format!("{} {} ok={} err={}", self.step_no, kind, ok, self.last_tx.as_ref().map(|t| t.err.clone()).unwrap_or_default());
            self.event_log.push(line);
            if let Some(t) = &self.last_tx {
                for e in &t.effects {
                    let l = self.norm_effect(e);
                    self.event_log.push(l);
                }
            }
        }
        let ps = self.abstract_state();
        let mut h = Fnv(ps);
        h.str(kind);
        self.stats.pairs.insert(h.0);
        if self.end_run {
            return;
        }
        self.invariants(&pre);
    }

    /// Normalised textual form of an effect: identical in both token-factory builds.
    fn norm_effect(&self, e: &Effect) -> String {
        match e {
            Effect::TfCreate { sender, subdenom, .. } => format!("  tf.create sender={} sub={}", sender, subdenom),
            Effect::TfMint { sender, denom, amount, to, .. } => format!("  tf.mint sender={} {}{} to={}", sender, amount, denom, to),
            Effect::TfBurn { sender, denom, amount, from, .. } => format!("  tf.burn sender={} {}{} from={}", sender, amount, denom, from),
            other => format!("  {:?}", other),
        }
    }

    fn op_to_deadline(&mut self, which: u8, delta: i64) {
        let now = self.w.now_s();
        let target: Option<u64> = match which % 4 {
            0 => self.m.batches.get(&self.m.pending).map(|b| b.due),
            1 => self.m.batches.values().filter(|b| b.status == 1).map(|b| b.due).min(),
            2 => self.m.nominee.as_ref().map(|n| n.1),
            _ => {
                let s = self.s_addr();
                let skew = self.w.st.native.skew_s;
                self.w.st.packets.iter().filter(|p| p.sender == s && p.state == PState::InFlight && p.timeout_ns > 0).map(|p| ((p.timeout_ns / 1_000_000_000) as i64 - skew).max(0) as u64).min()
            }
        };
        if let Some(t) = target {
            let tt = (t as i64 + delta).max(0) as u64;
            if tt > now {
                self.w.advance(tt - now);
                self.stats.fault("F13_deadline_landing");
                return;
            }
        }
        self.w.advance(1);
    }

    // --------------------------------------------------------------------------------------------
    // LiquidStake
    // --------------------------------------------------------------------------------------------

    fn garbage(&self, k: u8) -> String {
        match k % 8 {
            6 => self.w.setup.native_prefix.clone(),
            7 => self.w.setup.proto_prefix.clone(),
            0 => String::new(),
            1 => "not-an-address".into(),
            2 => self.a.third_prefix_addr.clone(),
            3 => {
                // native address with a damaged checksum
                let mut s = self.a.users[0].1.clone();
                let last = s.pop().unwrap();
                s.push(if last == 'q' { 'p' } else { 'q' });
                s
            }
            4 => self.a.users[0].1[..self.a.users[0].1.len() - 3].to_string(),
            _ => format!("{}1", self.w.setup.native_prefix),
        }
    }

    fn op_stake(&mut self, user: u8, amount: u128, rcpt: &Rcpt, flag: Option<bool>, expect: Expect, via: Via) {
        let s = self.s_addr();
        let ibc = self.ibc();
        let lst = self.lst.clone();
        let ui = user as usize % self.n_users();
        let (sender, native_user) = match via {
            Via::Direct => (self.a.users[ui].0.clone(), None),
            Via::Proxy => (self.a.proxies[user as usize % self.a.proxies.len()].clone(), None),
            Via::Hook => (self.hook_of(&self.a.users[ui].1), Some(self.a.users[ui].1.clone())),
        };
        let mint_to: Option<String> = match rcpt {
            Rcpt::Absent => None,
            Rcpt::SelfAddr => Some(sender.clone()),
            Rcpt::Proto(i) => Some(self.a.users[*i as usize % self.n_users()].0.clone()),
            Rcpt::Native(i) => Some(self.a.users[*i as usize % self.n_users()].1.clone()),
            Rcpt::NativeUpper(i) => Some(self.a.users[*i as usize % self.n_users()].1.to_uppercase()),
            Rcpt::NativeStaker => Some(self.m.cfg.staker.clone()),
            Rcpt::Garbage(k) => Some(self.garbage(*k)),
        };
        self.in_domain = self.domain_ok(&[amount]);
        // model prediction
        let (n0, l0, swept_now) = if self.m.l == 0 && self.m.n > 0 { (0u128, 0u128, self.m.n) } else { (self.m.n, self.m.l, 0) };
        let mint_opt = if n0 == 0 { Some(amount) } else { mul_div(amount, l0, n0) };
        let mint = mint_opt.unwrap_or(0);
        let expected_mint: Option<u128> = match expect {
            Expect::None => None,
            Expect::Exact => Some(mint),
            Expect::TooHigh => Some(mint.saturating_add(1)),
            Expect::Low => Some(mint.saturating_sub(1)),
        };
        let msg = json!({"liquid_stake": {
            "mint_to": mint_to,
            "transfer_to_native_chain": flag,
            "expected_mint_amount": expected_mint.map(|x| x.to_string()),
        }});
        let target = mint_to.clone().unwrap_or_else(|| sender.clone());
        let is_nat = valid_under(&target, &self.w.setup.native_prefix);
        let is_pro = valid_under(&target, &self.w.setup.proto_prefix);
        let to_native = if is_nat && is_pro { flag.unwrap_or(false) } else { is_nat };
        let sender_is_plain = b32_decode(&sender).map(|d| d.1.len() == 20).unwrap_or(false);
        let mut must_fail: Option<(&'static str, &'static str)> = None;
        if self.m.halted {
            must_fail = Some(("C10", "halted_refuses_stake"));
        } else if mint_to.is_none() && !sender_is_plain {
            must_fail = Some(("C03", "non_account_sender_must_name_recipient"));
        } else if !is_nat && !is_pro {
            must_fail = Some(("C03", "invalid_recipient_refused"));
        } else if amount < self.m.cfg.min_stake {
            must_fail = Some(("C04", "minimum_stake"));
        } else if mint_opt.is_some() && mint == 0 {
            must_fail = Some(("C04", "zero_mint_refused"));
        } else if expected_mint.map(|e| e > mint).unwrap_or(false) && mint_opt.is_some() {
            must_fail = Some(("C04", "expected_mint_guard"));
        }
        if amount == 0 {
            return;
        }
        let bank_pre = self.w.st.bank.clone();
        let res = match &native_user {
            None => {
                self.w.faucet(&sender, amount);
                self.exec(&sender, &[(ibc.clone(), amount)], &msg, Origin::Stake)
            }
            Some(nu) => {
                let nd = self.w.setup.native_denom.clone();
                self.w.st.native.credit(nu, &nd, amount);
                let ch = self.m.cfg.channel.clone();
                self.w.cur_origin = Origin::Stake;
                let id = match self.w.native_send_hook(nu, &s, amount, &msg, &ch) {
                    Ok(id) => id,
                    Err(_) => return,
                };
                let r = self.w.relay_inbound(id, false);
                self.w.cur_origin = Origin::Other;
                match r {
                    Some(r) => self.after_tx(r),
                    None => return,
                }
            }
        };
        if !res.ok {
            // un-faucet so ledgers stay simple: the user keeps the vouchers, which is harmless
            if must_fail.is_none() && !res.env_fault {
                self.stats.probe("stake_failed_unexpectedly");
                if self.in_domain && !res.panicked && native_user.is_none() {
                    self.vo("C04", "valid_stake_accepted", format!("LiquidStake of {} (minimum {}, would mint {:?}, expected_mint {:?}) by {} to {:?} was refused: {}", amount, self.m.cfg.min_stake, mint_opt, expected_mint, sender, mint_to, res.err));
                }
            }
            return;
        }
        if let Some((p, c)) = must_fail {
            // the model below follows what was executed, so the run can go on
            self.vo(p, c, format!("LiquidStake succeeded although it had to be refused ({}): sender={} mint_to={:?} amount={} N={} L={}", c, sender, mint_to, amount, self.m.n, self.m.l));
        }
        if swept_now > 0 {
            self.stats.probe("ownerless_stake_swept");
        }
        // minted amount (C04) and token-factory message (C19/C03)
        let mints: Vec<(String, u128, String, String)> = res
            .effects
            .iter()
            .filter_map(|e| match e {
                Effect::TfMint { denom, amount, to, type_url, .. } => Some((denom.clone(), *amount, to.clone(), type_url.clone())),
                _ => None,
            })
            .collect();
        let minted: u128 = mints.iter().filter(|m| m.0 == lst).map(|m| m.1).sum();
        if mint_opt.is_some() && minted != mint {
            self.v("C04", "mint_floor", format!("minted {} but floor(amount*L/N) = {} (amount={}, N={}, L={})", minted, mint, amount, n0, l0));
        }
        if mints.len() != 1 {
            self.v("C19", "one_mint_per_stake", format!("stake emitted {} mint messages", mints.len()));
        }
        // the mint message carries exactly the amount the contract accounts for and reports
        let reported: Option<u128> = res.attr("mint_amount").and_then(|a| a.parse().ok());
        if let Some(rep) = reported {
            if rep != minted || mints.iter().any(|m| m.0 != lst || m.2 != s) {
                self.v("C19", "mint_message_exact", format!("mint message(s) {:?} but the contract reports mint_amount {}", mints.iter().map(|m| (m.0.clone(), m.1, m.2.clone())).collect::<Vec<_>>(), rep));
            }
        }
        // forwarding of the staked asset (C01)
        let sent: Vec<Packet> = res.effects.iter().filter_map(|e| match e { Effect::IbcSend { pkt } => Some(self.w.st.packets[*pkt].clone()), _ => None }).collect();
        let fw: Vec<&Packet> = sent.iter().filter(|p| p.denom == ibc).collect();
        if fw.len() != 1 || fw[0].amount != amount || fw[0].receiver != self.m.cfg.staker {
            self.v("C01", "stake_forwards_paid_amount", format!("stake of {} forwarded {:?} (staker {})", amount, fw.iter().map(|p| (p.amount, p.receiver.clone())).collect::<Vec<_>>(), self.m.cfg.staker));
        }
        // delivery of the minted LST (C03)
        let mut deltas: BTreeMap<String, i128> = BTreeMap::new();
        for ((addr, d), b) in &self.w.st.bank.bal {
            if *d == lst {
                let before = bank_pre.balance(addr, d);
                if *b != before {
                    deltas.insert(addr.clone(), *b as i128 - before as i128);
                }
            }
        }
        let escrow = format!("escrow/{}", self.m.cfg.channel);
        let lst_pkts: Vec<&Packet> = sent.iter().filter(|p| p.denom == lst).collect();
        if to_native {
            if self.w.setup.native_prefix == self.w.setup.proto_prefix {
                self.stats.probe("stake_equal_prefix_to_native");
            }
            if lst_pkts.len() != 1 || lst_pkts[0].amount != minted || lst_pkts[0].receiver != target {
                self.v("C03", "native_delivery_exact", format!("minted {} for native recipient {} but LST transfers were {:?}", minted, target, lst_pkts.iter().map(|p| (p.amount, p.receiver.clone())).collect::<Vec<_>>()));
            }
            let esc = deltas.remove(&escrow).unwrap_or(0);
            let other: Vec<_> = deltas.iter().collect();
            if !other.is_empty() || esc != lst_pkts.iter().map(|p| p.amount as i128).sum::<i128>() {
                self.v("C03", "nobody_else_receives", format!("LST balance changes besides the outbound transfer: {:?} escrow {}", other, esc));
            }
            if self.m.batches.get(&self.m.pending).map(|b| b.total > 0).unwrap_or(false) && n0 != l0 {
                self.stats.probe("native_stake_with_pending_lst_at_rate_ne_1");
            }
        } else {
            if !lst_pkts.is_empty() {
                self.v("C03", "protocol_delivery_exact", "protocol-chain recipient but an LST IBC transfer was made".into());
            }
            let got = deltas.remove(&target).unwrap_or(0);
            if got != minted as i128 || !deltas.is_empty() {
                self.v("C03", "protocol_delivery_exact", format!("minted {} for {} who received {}; other LST changes {:?}", minted, target, got, deltas));
            }
        }
        if n0 != l0 {
            self.stats.probe("stake_at_rate_ne_1");
        }
        // rate never falls for existing holders: (n0+a)*l0 >= n0*(l0+mint)
        if l0 > 0 && cmp_prod(n0 + amount, l0, n0, l0 + minted) == std::cmp::Ordering::Less {
            self.v("C04", "stake_no_dilution", format!("redemption rate fell: N {}->{} L {}->{}", n0, n0 + amount, l0, l0 + minted));
        }
        // round trip: unstaking right away everything the recipient was handed returns <= paid
        let handed: u128 = if to_native { lst_pkts.iter().map(|p| p.amount).sum() } else { self.w.st.bank.balance(&target, &lst).saturating_sub(bank_pre.balance(&target, &lst)) };
        if let Some(back) = mul_div(n0 + amount, handed.max(minted), l0 + minted) {
            if back > amount {
                self.v("C04", "no_round_trip_profit", format!("stake {} mints {} and hands the recipient {}, which immediately redeems for {}", amount, minted, handed, back));
            }
        }
        if let Some(nu) = &native_user {
            self.note_accepted_hook(&sender, nu);
        }
        // model update
        self.m.n = n0 + amount;
        self.m.l = l0 + mint;
        self.m.fees += swept_now;
        self.m.swept += swept_now;
        if swept_now > 0 && self.m.ownerless_from_resume {
            self.m.swept_known += swept_now;
        }
        self.m.ownerless_from_resume = false;
        self.totals_prop = "C04";
    }

    fn note_accepted_hook(&mut self, account: &str, native_sender: &str) {
        let pair = (self.m.cfg.channel.clone(), native_sender.to_string());
        if let Some(prev) = self.accepted_hooks.get(account) {
            if *prev != pair {
                let m = format!("account {} accepted for {:?} and for {:?}", account, prev, pair);
                self.v("C09", "no_collision", m);
            }
        }
        self.accepted_hooks.insert(account.to_string(), pair);
    }

    // --------------------------------------------------------------------------------------------
    // LiquidUnstake / SubmitBatch / Withdraw
    // --------------------------------------------------------------------------------------------

    fn op_unstake(&mut self, user: u8, amount: u128) {
        let sender = self.user_addr(user);
        let lst = self.lst.clone();
        let bal = self.w.st.bank.balance(&sender, &lst);
        let amt = amount.min(bal);
        if amt == 0 {
            return;
        }
        self.in_domain = self.domain_ok(&[amt]);
        let res = self.exec(&sender, &[(lst.clone(), amt)], &json!({"liquid_unstake": {}}), Origin::Other);
        if !res.ok {
            return;
        }
        if self.m.halted {
            self.v("C10", "halted_refuses_unstake", "LiquidUnstake succeeded while halted".into());
        }
        let pid = self.m.pending;
        if let Some(b) = self.m.batches.get_mut(&pid) {
            let e = b.reqs.entry(sender.clone()).or_insert(0);
            if *e > 0 {
                self.stats.probes.entry("repeated_unstake_same_batch").and_modify(|x| *x += 1).or_insert(1);
            }
            *e += amt;
            b.total += amt;
        }
        self.check_requests_of(&sender, "C05", "requests_accumulate");
    }

    /// Two comparisons: (i) the UnstakeRequests(user) query against the primary request records in raw
    /// storage (C17: the query / index returns exactly the stored open requests); (ii) the stored
    /// records against the reference model (the caller's property: how unstakes and withdrawals
    /// maintain the requests).
    pub fn check_requests_of(&mut self, user: &str, prop: &'static str, clause: &'static str) {
        let mut expect: Vec<(u64, u128)> = vec![];
        for (id, b) in &self.m.batches {
            if let Some(a) = b.reqs.get(user) {
                expect.push((*id, *a));
            }
        }
        let pk = crate::eng_admin::ns_key("unstake_requests");
        let mut stored: Vec<(u64, u128)> = self
            .w
            .st
            .staking
            .map
            .iter()
            .filter(|(k, _)| k.starts_with(&pk))
            .filter_map(|(_, v)| serde_json::from_slice::<Value>(v).ok())
            .filter(|j| j["user"].as_str() == Some(user))
            .map(|j| (j["batch_id"].as_u64().unwrap_or(0), u(&j["amount"])))
            .collect();
        stored.sort();
        let got = self.q(json!({"unstake_requests": {"user": user}}));
        let mut g: Vec<(u64, u128)> = match &got {
            Some(Value::Array(a)) => a.iter().map(|r| (r["batch_id"].as_u64().unwrap_or(0), u(&r["amount"]))).collect(),
            _ => vec![(u64::MAX, 0)],
        };
        g.sort();
        if stored.len() > 30 {
            self.stats.probe("user_with_more_than_30_open_requests");
        }
        let foreign = matches!(&got, Some(Value::Array(a)) if a.iter().any(|r| r["user"].as_str() != Some(user)));
        if g != stored || foreign {
            self.v("C17", "unstake_requests_by_user", format!("UnstakeRequests({}) = {:?} but the stored open requests of that user are {:?}", user, g, stored));
        } else if g != expect {
            // the query is faithful to storage, but what it reports is not what the account's unstakes and
            // withdrawals amount to: the user-facing statement of C17 fails as well
            self.v("C17", "unstake_requests_follow_history", format!("UnstakeRequests({}) = {:?} but that account's unstakes and withdrawals amount to {:?}", user, g, expect));
        }
        if stored != expect {
            let (p, c) = if prop == "C17" { ("C05", "requests_match_history") } else { (prop, clause) };
            self.v(p, c, format!("stored open requests of {} are {:?} but its unstakes and withdrawals amount to {:?}", user, stored, expect));
        }
    }

    fn op_extra_funds(&mut self, user: u8, unstake: bool, amount: u128, extra_kind: u8, extra: u128) {
        let sender = self.user_addr(user);
        let ibc = self.ibc();
        let lst = self.lst.clone();
        let (main, other) = if unstake { (lst.clone(), ibc.clone()) } else { (ibc.clone(), lst.clone()) };
        let extra_denom = if extra_kind % 2 == 0 { other } else { "uosmo".to_string() };
        // fund the sender: staked asset and unrelated tokens from the faucet, LST only from its holdings
        let mut need = |e: &mut Engine, d: &str, a: u128| -> u128 {
            if d == e.lst {
                a.min(e.w.st.bank.balance(&sender, d))
            } else if d == ibc {
                e.w.faucet(&sender, a);
                a
            } else {
                e.w.st.bank.mint(&sender, d, a);
                a
            }
        };
        let a_main = need(self, &main, amount.max(1));
        let a_extra = need(self, &extra_denom, extra.max(1));
        if a_main == 0 || a_extra == 0 {
            return;
        }
        // the SDK keeps the coins of a message sorted by denom
        let mut funds = vec![(main.clone(), a_main), (extra_denom.clone(), a_extra)];
        funds.sort();
        let msg = if unstake { json!({"liquid_unstake": {}}) } else { json!({"liquid_stake": {}}) };
        self.stats.probe("message_with_a_second_coin");
        let res = self.exec(&sender, &funds, &msg, if unstake { Origin::Other } else { Origin::Stake });
        if !res.ok {
            return;
        }
        let what = if unstake { "LiquidUnstake" } else { "LiquidStake" };
        let m = format!("{} accepted funds {:?}: {} {} stay in the contract without belonging to any batch, fee, refund or request", what, funds, a_extra, extra_denom);
        if extra_denom == lst {
            self.v("C03", "contract_holds_only_queued_lst", m);
        } else if extra_denom == ibc {
            self.v("C02", "contract_holds_only_what_it_owes", m);
        } else {
            // an unrelated coin swallowed by the contract is outside every property; the run cannot be followed
            self.v("SETASIDE", "second_coin_accepted", m);
        }
    }

    /// F22: a plain bank transfer into the contract's account. No entry point runs; nothing the contract
    /// records may change and nobody's claim may grow or shrink because of it.
    fn op_donate(&mut self, user: u8, kind: u8, amount: u128) {
        let from = self.user_addr(user);
        let s = self.s_addr();
        let (denom, amt) = match kind % 3 {
            0 => {
                self.w.faucet(&from, amount);
                (self.ibc(), amount)
            }
            1 => {
                let have = self.w.st.bank.balance(&from, &self.lst);
                (self.lst.clone(), amount.min(have))
            }
            _ => {
                self.w.st.bank.mint(&from, "uosmo", amount);
                ("uosmo".to_string(), amount)
            }
        };
        if amt == 0 || self.w.st.bank.send(&from, &s, &denom, amt).is_err() {
            return;
        }
        self.stats.fault("F22_unsolicited_deposit");
        match kind % 3 {
            0 => self.m.donated_ibc += amt,
            1 => self.m.donated_lst += amt,
            _ => {}
        }
    }

    fn op_submit(&mut self, caller: Who) {
        let sender = match self.who_addr(caller) {
            Some(s) => s,
            None => return,
        };
        let now = self.w.now_s();
        let pid = self.m.pending;
        let pend = match self.m.batches.get(&pid) {
            Some(b) => b.clone(),
            None => return,
        };
        // deadlines must fit the clock and be representable as a Timestamp (nanoseconds in a u64)
        let fits = |p: u64| now.checked_add(p).map(|d| d <= u64::MAX / 1_000_000_000).unwrap_or(false);
        let periods_fit = fits(self.m.cfg.batch_period) && fits(self.m.cfg.unbonding);
        if !periods_fit {
            self.stats.probe("submit_with_period_overflowing_clock");
        }
        let should = !self.m.halted && !pend.reqs.is_empty() && now >= pend.due && periods_fit;
        let artefact = self.m.l < pend.total || self.w.st.bank.balance(&self.s_addr(), &self.lst) < pend.total;
        if now == pend.due {
            self.stats.probe("submit_exactly_at_deadline");
        }
        if now + 1 == pend.due {
            self.stats.probe("submit_one_second_early");
        }
        let (n, l, b) = (self.m.n, self.m.l, pend.total);
        self.in_domain = self.domain_ok(&[b]);
        let res = self.exec(&sender, &[], &json!({"submit_batch": {}}), Origin::Other);
        if !res.ok {
            if should && !res.env_fault && !artefact && (!res.panicked || self.in_domain) {
                self.v("C06", "submit_succeeds_when_due", format!("SubmitBatch refused although running, non-empty and due (now={}, due={}): {}", now, pend.due, res.err));
            }
            return;
        }
        if !should && periods_fit {
            if self.m.halted {
                self.v("C10", "halted_refuses_submit", "SubmitBatch succeeded while halted".into());
            } else {
                self.v("C06", "submit_only_when_due", format!("SubmitBatch succeeded with requests={} now={} due={}", pend.reqs.len(), now, pend.due));
            }
        }
        // burn exactly the batch total (C03 / C19)
        let burns: Vec<(String, u128, String)> = res.effects.iter().filter_map(|e| match e { Effect::TfBurn { denom, amount, from, .. } => Some((denom.clone(), *amount, from.clone())), _ => None }).collect();
        if burns.len() != 1 {
            self.v("C19", "one_burn_per_submission", format!("submission emitted {} burn messages", burns.len()));
        }
        let burned: u128 = burns.iter().filter(|x| x.0 == self.lst).map(|x| x.1).sum();
        if burned != b || burns.iter().any(|x| x.2 != self.s_addr()) {
            self.v("C03", "burn_batch_total", format!("submission burned {:?} but the batch total is {}", burns, b));
            self.v("C19", "burn_message_exact", format!("burn message(s) {:?} but the submitted batch total is {}", burns, b));
        }
        let unbond = mul_div(n, b, l).unwrap_or(0);
        // observed expected amount
        let ob = self.q(json!({"batch": {"id": pid}}));
        let observed = ob.as_ref().map(|v| u(&v["expected_native_unstaked"])).unwrap_or(0);
        if observed != unbond {
            self.v("C04", "set_aside_floor", format!("batch {} set aside {} but floor(N*b/L) = {} (N={}, L={}, b={})", pid, observed, unbond, n, l, b));
        }
        // remaining holders' rate never falls: (n-unbond)*l >= n*(l-b)
        if l > b && cmp_prod(n - unbond.min(n), l, n, l - b) == std::cmp::Ordering::Less {
            self.v("C04", "submit_no_dilution", format!("redemption rate of remaining holders fell at submission (N={}, L={}, b={}, set aside {})", n, l, b, observed));
        }
        if n != l {
            self.stats.probe("submit_at_rate_ne_1");
        }
        let cfgc = self.m.cfg.clone();
        if let Some(mb) = self.m.batches.get_mut(&pid) {
            mb.status = 1;
            mb.expected = Some(observed);
            mb.due = now.saturating_add(cfgc.unbonding);
        }
        self.m.batches.insert(pid + 1, MBatch { id: pid + 1, total: 0, reqs: BTreeMap::new(), status: 0, due: now.saturating_add(cfgc.batch_period), expected: None, received: None, paid: 0 });
        self.m.pending = pid + 1;
        self.m.n = n - unbond.min(n);
        self.m.l = l - b.min(l);
        self.totals_prop = "C04";
    }

    fn op_withdraw(&mut self, sender: String, batch_sel: u8) {
        let ids: Vec<u64> = self.m.batches.keys().cloned().collect();
        if ids.is_empty() {
            return;
        }
        // bias: selector 255 targets a non-existent batch
        let id = if batch_sel == 255 { ids.len() as u64 + 7 } else { ids[batch_sel as usize % ids.len()] };
        let ibc = self.ibc();
        let s = self.s_addr();
        let mb = self.m.batches.get(&id).cloned();
        let own = mb.as_ref().and_then(|b| b.reqs.get(&sender).cloned());
        let entitled = !self.m.halted && mb.as_ref().map(|b| b.status == 2).unwrap_or(false) && own.is_some();
        let res = self.exec(&sender, &[], &json!({"withdraw": {"batch_id": id}}), Origin::Other);
        if !res.ok {
            if entitled && !res.env_fault && self.m.swept == 0 && !self.m.reckless && !res.panicked {
                if res.err.contains("insufficient funds") {
                    self.v("C02", "entitled_withdraw_paid_in_full", format!("Withdraw of batch {} by {} failed for lack of funds: {}", id, sender, res.err));
                } else {
                    self.v("C05", "entitled_withdraw_succeeds", format!("first Withdraw of batch {} by a requester failed: {}", id, res.err));
                }
            }
            return;
        }
        let paid_to_sender = res.sent(&s, &sender, &ibc);
        let paid_others: u128 = res.effects.iter().map(|e| match e { Effect::BankSend { from, to, denom, amount } if *from == s && *to != sender && *denom == ibc => *amount, _ => 0 }).sum();
        if !entitled {
            if self.m.halted {
                self.v("C10", "halted_refuses_withdraw", "Withdraw succeeded while halted".into());
            } else {
                self.v("C05", "withdraw_once_requesters_only", format!("Withdraw of batch {} by {} succeeded (status {:?}, own request {:?}) and paid {}", id, sender, mb.as_ref().map(|b| b.status), own, paid_to_sender));
                self.v("C08", "withdraw_own_request_only", format!("Withdraw paid {} to {} who has no open request in batch {}", paid_to_sender, sender, id));
            }
            if let Some(b) = self.m.batches.get_mut(&id) {
                b.paid += paid_to_sender + paid_others;
            }
            return;
        }
        let mb = mb.unwrap();
        let own = own.unwrap();
        let expect = mul_div(mb.received.unwrap_or(0), own, mb.total).unwrap_or(0);
        if paid_to_sender != expect {
            self.v("C05", "pro_rata_payout", format!("Withdraw paid {} but floor(received*own/total) = {} (received={}, own={}, total={})", paid_to_sender, expect, mb.received.unwrap_or(0), own, mb.total));
        }
        if paid_others != 0 {
            self.v("C08", "withdraw_pays_caller_only", format!("Withdraw by {} also paid {} to other accounts", sender, paid_others));
        }
        if mb.received != mb.expected {
            self.stats.probe("withdraw_from_slashed_or_generous_batch");
        }
        if let Some(b) = self.m.batches.get_mut(&id) {
            b.reqs.remove(&sender);
            b.paid += paid_to_sender + paid_others;
        }
        let remaining = self.m.batches.get(&id).map(|b| b.reqs.len()).unwrap_or(0);
        if remaining > 0 && self.q(json!({"batch": {"id": id}})).is_none() {
            self.v("C05", "batch_kept_while_requests_remain", format!("batch {} disappeared after a withdrawal although {} requester(s) have not withdrawn", id, remaining));
        }
        self.check_requests_of(&sender, "C05", "claim_consumed");
    }

    // --------------------------------------------------------------------------------------------
    // recovery
    // --------------------------------------------------------------------------------------------

    /// packets the contract may regard as refundable: refunded on chain, callback delivered, not yet recovered
    fn refundable(&self) -> Vec<Packet> {
        let s = self.s_addr();
        let mut v: Vec<Packet> = self.w.st.packets.iter().filter(|p| p.sender == s && p.callback.is_some() && p.state == PState::Refunded && !self.m.recovered.contains(&p.id) && !self.m.lost_cb.contains(&p.id)).cloned().collect();
        v.sort_by_key(|p| p.seq);
        v
    }

    fn op_recover(&mut self, caller: Who, paginated: Option<bool>, receiver: Option<u8>) {
        let sender = match self.who_addr(caller) {
            Some(s) => s,
            None => return,
        };
        let recv_arg: Option<String> = receiver.map(|i| match i {
            250 => self.m.cfg.staker.clone(),
            251 => self.garbage(3),
            252 => self.a.users[0].0.clone(),
            253 => self.garbage(6),
            254 => self.garbage(7),
            100..=120 => self.a.users[(i - 100) as usize % self.n_users()].1.to_uppercase(),
            _ => self.a.users[i as usize % self.n_users()].1.clone(),
        });
        let target = recv_arg.clone().unwrap_or_else(|| self.m.cfg.staker.clone());
        let arg_valid = recv_arg.as_ref().map(|r| valid_under(r, &self.w.setup.native_prefix)).unwrap_or(true);
        let mut sel: Vec<Packet> = self.refundable().into_iter().filter(|p| p.receiver == target).collect();
        if paginated.unwrap_or(false) {
            if sel.len() > 10 {
                self.stats.probe("recover_more_than_one_page");
            }
            sel.truncate(10);
        }
        let mixed = sel.iter().any(|p| p.denom != sel[0].denom);
        let msg = json!({"recover_pending_ibc_transfers": {"paginated": paginated, "selected_packets": Value::Null, "receiver": recv_arg}});
        let res = self.exec(&sender, &[], &msg, Origin::Recover);
        self.check_recover_result(&res, &sel, &target, arg_valid && !sel.is_empty() && !mixed);
    }

    fn check_recover_result(&mut self, res: &TxResult, sel: &[Packet], target: &str, should_be_possible: bool) {
        if !res.ok {
            if should_be_possible && !res.env_fault && res.err.contains("insufficient funds") && self.m.swept == 0 && !self.m.reckless {
                self.v("C02", "recovery_paid_in_full", format!("recovery of {} refundable transfers failed for lack of funds: {}", sel.len(), res.err));
            }
            if res.env_fault {
                self.stats.probe("recovery_own_transfer_failed");
            } else if should_be_possible && !res.panicked && !self.m.reckless && self.m.swept == 0 && !res.err.contains("insufficient funds") {
                // refundable transfers of this receiver exist: they stay recoverable
                self.v("C07", "refundable_stays_recoverable", format!("{} refundable transfer(s) to {} exist but the recovery was refused: {}", sel.len(), target, res.err));
            }
            return;
        }
        if !should_be_possible {
            self.v("C07", "recover_only_refundable_same_receiver_denom", format!("recovery succeeded although nothing eligible (eligible={}, receiver={})", sel.len(), target));
            let sent: Vec<Packet> = res.effects.iter().filter_map(|e| match e { Effect::IbcSend { pkt } => Some(self.w.st.packets[*pkt].clone()), _ => None }).collect();
            self.v("C02", "recovery_pays_the_right_claim", format!("recovery for {} had nothing eligible but emitted {:?}", target, sent.iter().map(|p| (p.amount, p.denom.clone(), p.receiver.clone())).collect::<Vec<_>>()));
            if sent.iter().any(|p| p.denom == self.lst) {
                self.v("C03", "lst_resent_to_the_chosen_recipient", format!("recovery for {} had nothing eligible but re-sent LST {:?}", target, sent.iter().map(|p| (p.amount, p.receiver.clone())).collect::<Vec<_>>()));
            }
            return;
        }
        let sent: Vec<Packet> = res.effects.iter().filter_map(|e| match e { Effect::IbcSend { pkt } => Some(self.w.st.packets[*pkt].clone()), _ => None }).collect();
        let sum: u128 = sel.iter().map(|p| p.amount).sum();
        if sent.len() != 1 || sent[0].amount != sum || sent[0].receiver != target || sent[0].denom != sel[0].denom {
            // the refunded value belongs to the receiver it was meant for: paying it elsewhere, or paying more
            // than was refunded, spends what backs another claim (C02); for LST it is a wrong delivery (C03)
            self.v("C02", "recovery_pays_the_right_claim", format!("recovery for {} of {:?} emitted {:?}", target, sel.iter().map(|p| (p.seq, p.amount)).collect::<Vec<_>>(), sent.iter().map(|p| (p.amount, p.receiver.clone())).collect::<Vec<_>>()));
            if sel[0].denom == self.lst || sent.iter().any(|p| p.denom == self.lst) {
                self.v("C03", "lst_resent_to_the_chosen_recipient", format!("recovery for {} re-sent LST as {:?}", target, sent.iter().map(|p| (p.amount, p.denom.clone(), p.receiver.clone())).collect::<Vec<_>>()));
            }
            self.v("C07", "recover_resends_exact_sum", format!("recovery of {:?} for {} emitted {:?}", sel.iter().map(|p| (p.seq, p.amount, p.denom.clone())).collect::<Vec<_>>(), target, sent.iter().map(|p| (p.amount, p.denom.clone(), p.receiver.clone())).collect::<Vec<_>>()));
        }
        if sel.len() > 1 {
            self.stats.probe("recover_merges_several");
        }
        if sel.iter().any(|p| p.origin == Origin::Recover) {
            self.stats.probe("recursive_recovery");
        }
        for p in sel {
            self.m.recovered.insert(p.id);
        }
    }

    pub fn op_forced_recover(&mut self, sender: String, ids: &[u64], receiver: Option<u8>, honest: bool) {
        let authorised = sender == self.m.admin;
        let recv_arg: Option<String> = receiver.map(|i| match i {
            250 => self.m.cfg.staker.clone(),
            _ => self.a.users[i as usize % self.n_users()].1.clone(),
        });
        let target = recv_arg.clone().unwrap_or_else(|| self.m.cfg.staker.clone());
        let s = self.s_addr();
        // candidate pool
        let pool: Vec<Packet> = if honest {
            self.w.st.packets.iter().filter(|p| p.sender == s && p.callback.is_some() && p.state == PState::Refunded && !self.m.recovered.contains(&p.id) && p.receiver == target).cloned().collect()
        } else {
            // reckless: also transfers still in flight - but not ones already received on the native chain
            // (re-sending those duplicates the stake for good, which no property survives)
            self.w.st.packets.iter().filter(|p| p.sender == s && p.callback.is_some() && !self.m.recovered.contains(&p.id) && matches!(p.state, PState::InFlight | PState::RecvErr | PState::Refunded) && !self.m.lost_cb.contains(&p.id)).cloned().collect()
        };
        let mut chosen: Vec<Packet> = vec![];
        let mut seqs: Vec<u64> = vec![];
        for i in ids {
            if *i >= 1000 || pool.is_empty() {
                seqs.push(900_000 + *i); // non-existent
            } else {
                let p = pool[*i as usize % pool.len()].clone();
                seqs.push(p.seq);
                chosen.push(p);
            }
        }
        let nonexistent = seqs.iter().any(|x| *x >= 900_000);
        let mut distinct: Vec<Packet> = vec![];
        for p in &chosen {
            if !distinct.iter().any(|d| d.id == p.id) {
                distinct.push(p.clone());
            }
        }
        if distinct.len() < chosen.len() {
            self.stats.probe("forced_recovery_with_repeated_id");
        }
        let same_receiver = distinct.iter().all(|p| p.receiver == target);
        let mixed = distinct.iter().any(|p| p.denom != distinct[0].denom);
        let msg = json!({"recover_pending_ibc_transfers": {"paginated": Value::Null, "selected_packets": seqs, "receiver": recv_arg}});
        let storage_pre = self.w.st.staking.map.clone();
        let res = self.exec(&sender, &[], &msg, Origin::Recover);
        if !authorised {
            if res.ok {
                self.v("C08", "forced_recovery_admin_only", format!("forced recovery by {} succeeded", sender));
                self.v("C07", "in_flight_never_resent_by_non_admin", format!("non-admin {} selected packets explicitly", sender));
            } else if self.w.st.staking.map != storage_pre {
                self.v("C08", "unauthorized_changes_nothing", "storage changed by a refused forced recovery".into());
            }
            return;
        }
        if !honest && res.ok {
            // a reckless selection (in-flight packets) voids the solvency statements (C02, C03, C07 ledgers)
            // for the rest of the run; the re-sent originals are doomed to fail so that C01 stays decidable
            self.m.reckless = true;
            for p in &distinct {
                if matches!(p.state, PState::InFlight | PState::RecvErr) {
                    self.m.doomed.insert(p.id);
                }
            }
            self.stats.probe("reckless_forced_recovery");
        }
        let possible = !nonexistent && !distinct.is_empty() && same_receiver && !mixed;
        if res.ok && !possible {
            self.v("C07", "forced_recover_validates_selection", format!("forced recovery succeeded with nonexistent={} same_receiver={} mixed={}", nonexistent, same_receiver, mixed));
            if !same_receiver && !distinct.is_empty() {
                // the refunded value of one receiver was re-sent to another account
                let lst = self.lst.clone();
                let ibc = self.ibc();
                let m = format!("forced recovery re-sent the refunded transfers {:?} to {} although they were addressed to {:?}", distinct.iter().map(|p| (p.seq, p.amount, p.denom.clone())).collect::<Vec<_>>(), target, distinct.iter().map(|p| p.receiver.clone()).collect::<Vec<_>>());
                if distinct.iter().any(|p| p.denom == lst) {
                    self.v("C03", "lst_resent_to_the_chosen_recipient", m.clone());
                }
                if distinct.iter().any(|p| p.denom == ibc) {
                    self.v("C02", "recovery_pays_the_right_claim", m.clone());
                    if distinct.iter().any(|p| p.denom == ibc && p.receiver == self.m.cfg.staker) {
                        self.v("C01", "stake_resent_only_to_the_staker", m);
                    }
                }
            }
            return;
        }
        if honest {
            self.check_recover_result(&res, &distinct, &target, possible);
        } else if res.ok {
            // mechanical clause only: one transfer for the sum of the distinct selected packets
            let sent: Vec<Packet> = res.effects.iter().filter_map(|e| match e { Effect::IbcSend { pkt } => Some(self.w.st.packets[*pkt].clone()), _ => None }).collect();
            let sum: u128 = distinct.iter().map(|p| p.amount).sum();
            if sent.len() != 1 || sent[0].amount != sum || sent[0].receiver != target {
                self.v("C07", "recover_resends_exact_sum", format!("forced recovery of distinct {:?} emitted {:?}", distinct.iter().map(|p| (p.seq, p.amount)).collect::<Vec<_>>(), sent.iter().map(|p| (p.amount, p.receiver.clone())).collect::<Vec<_>>()));
            }
            // mechanical clause: every selected record is gone from the table afterwards
            let left: Vec<u64> = self
                .q(json!({"ibc_queue": {}}))
                .and_then(|v| v["ibc_queue"].as_array().map(|a| a.iter().map(|p| p["sequence"].as_u64().unwrap_or(0)).collect()))
                .unwrap_or_default();
            let new_seq: Vec<u64> = sent.iter().map(|p| p.seq).collect();
            for p in &distinct {
                if left.contains(&p.seq) && !new_seq.contains(&p.seq) {
                    self.vo("C07", "recover_removes_what_it_resends", format!("packet seq {} was re-sent by the forced recovery but is still recorded", p.seq));
                }
            }
            for p in &distinct {
                self.m.recovered.insert(p.id);
            }
        }
    }

    // --------------------------------------------------------------------------------------------
    // operator
    // --------------------------------------------------------------------------------------------

    /// Returns (info.sender seen by the contract, genuine?, tx result)
    fn hook_call(&mut self, role_native: &str, mode: Deliver, amount: u128, msg: &Value, origin: Origin) -> Option<(String, bool, TxResult)> {
        let s = self.s_addr();
        let nd = self.w.setup.native_denom.clone();
        let ch = self.m.cfg.channel.clone();
        let other_role = if role_native == self.m.cfg.staker { self.m.cfg.collector.clone() } else { self.m.cfg.staker.clone() };
        let mut prev_channel = false;
        let wrong_denom = matches!(mode, Deliver::WrongDenom);
        let (native_sender, channel, genuine): (String, String, bool) = match mode {
            Deliver::Exact | Deliver::Short(_) | Deliver::Long(_) => (role_native.to_string(), ch.clone(), true),
            // the right account over the right channel, but not a unit of the staked asset arrives
            Deliver::WrongDenom => (role_native.to_string(), ch.clone(), false),
            Deliver::DirectBy(who) => {
                let a = self.who_addr(who)?;
                if a == s || a == self.hook_of(role_native) {
                    return None;
                }
                self.w.faucet(&a, amount);
                let ibc = self.ibc();
                self.stats.fault("F14_impersonation");
                self.stats.probe("privileged_account_poses_as_hook_sender");
                let r = self.exec(&a, &[(ibc, amount)], msg, origin);
                return Some((a, false, r));
            }
            Deliver::OtherChannel => {
                // either a channel never configured, or (if the configuration has moved) the channel that was
                // configured before: its hook accounts were genuine once and are impostors now
                let previous: Vec<String> = self.w.st.channels.keys().filter(|c| **c != self.m.cfg.channel).cloned().collect();
                if !previous.is_empty() && amount % 2 == 0 {
                    self.stats.probe("impostor_over_previously_configured_channel");
                    prev_channel = true;
                    (role_native.to_string(), previous[(amount / 2 % previous.len() as u128) as usize].clone(), false)
                } else {
                    (role_native.to_string(), self.other_channel(1000), false)
                }
            }
            Deliver::OtherAccount => (self.a.nothers[(amount % 3) as usize].clone(), ch.clone(), false),
            Deliver::RoleSwap => {
                if other_role == role_native {
                    return None;
                }
                (other_role, ch.clone(), false)
            }
            Deliver::DirectCall => {
                let u0 = self.a.users[(amount % self.n_users() as u128) as usize].0.clone();
                self.w.faucet(&u0, amount);
                let ibc = self.ibc();
                self.stats.fault("F14_impersonation");
                let r = self.exec(&u0, &[(ibc, amount)], msg, origin);
                return Some((u0, false, r));
            }
        };
        if !genuine && !wrong_denom {
            self.stats.fault("F14_impersonation");
        }
        // funding: the genuine staker pays from its holdings; everybody else is topped up
        let have = self.w.st.native.balance(&native_sender, &nd);
        let mut topup = 0u128;
        if !genuine {
            // impostors bring their own money; it is taken back when the transfer is refunded
            topup = amount;
        } else if have < amount {
            if role_native == self.m.cfg.staker && self.sw.honest {
                // an honest operator pays from what has arrived; it waits while stake is still in transit
                self.stats.probe("honest_operator_waits_for_funds");
                return None;
            }
            topup = amount - have;
        }
        self.w.st.native.credit(&native_sender, &nd, topup);
        self.w.cur_origin = origin;
        let id = self.w.native_send_hook(&native_sender, &s, amount, msg, &channel).ok()?;
        if prev_channel {
            // the staked asset arriving over the formerly configured channel is the same voucher the contract knows
            self.w.st.inpackets[id].denom_on_dest = self.w.setup.ibc_denom.clone();
        }
        if wrong_denom {
            // some other token of the native chain: its voucher on the protocol chain has its own hash
            self.stats.fault("F10_wrong_denom_delivery");
            self.w.st.inpackets[id].denom_on_dest = format!("ibc/{}", hex(&crate::world::sha2_of(&format!("transfer/{}/uother{}", channel, amount % 3))).to_uppercase());
        }
        let r = self.w.relay_inbound(id, false);
        self.w.cur_origin = Origin::Other;
        let r = self.after_tx(r?);
        if !genuine && !r.ok {
            let _ = self.w.st.native.debit(&native_sender, &nd, topup);
        }
        let acct = hooks_intermediate_sender(&channel, &native_sender, &self.w.setup.proto_prefix);
        if r.ok {
            let pair = (channel.clone(), native_sender.clone());
            if let Some(prev) = self.accepted_hooks.get(&acct) {
                if *prev != pair {
                    let m = format!("account {} accepted for {:?} and for {:?}", acct, prev, pair);
                    self.v("C09", "no_collision", m);
                }
            }
            self.accepted_hooks.insert(acct.clone(), pair);
        }
        Some((acct, genuine, r))
    }

    fn op_deliver(&mut self, batch_sel: u8, mode: Deliver) {
        // prefer submitted batches; selector beyond their number walks all batches
        let submitted: Vec<u64> = self.m.batches.values().filter(|b| b.status == 1).map(|b| b.id).collect();
        let all: Vec<u64> = self.m.batches.keys().cloned().collect();
        let id = if !submitted.is_empty() && (batch_sel as usize) < 200 { submitted[batch_sel as usize % submitted.len()] } else { all[batch_sel as usize % all.len()] };
        let mb = self.m.batches.get(&id).cloned().unwrap();
        let expected = mb.expected.unwrap_or(0);
        let amount = match mode {
            Deliver::Short(p) => mul_div(expected, p.min(99) as u128, 100).unwrap_or(0),
            Deliver::Long(p) => mul_div(expected, p.max(101) as u128, 100).unwrap_or(expected),
            _ => expected,
        }
        .max(1);
        if self.sw.honest && matches!(mode, Deliver::Short(_) | Deliver::Long(_)) {
            return; // honest runs deliver exactly
        }
        if self.sw.honest && expected == 0 && matches!(mode, Deliver::Exact) && mb.status == 1 {
            // an honest operator has nothing to send for a zero-valued batch; skip (cannot send 0)
            return;
        }
        match mode {
            Deliver::Short(_) => self.stats.fault("F10_short_delivery"),
            Deliver::Long(_) => self.stats.fault("F10_long_delivery"),
            _ => {}
        }
        let now = self.w.now_s();
        let staker = self.m.cfg.staker.clone();
        let msg = json!({"receive_unstaked_tokens": {"batch_id": id}});
        self.in_domain = self.domain_ok(&[amount]);
        let (acct, genuine, res) = match self.hook_call(&staker, mode, amount, &msg, Origin::Other) {
            Some(x) => x,
            None => return,
        };
        let due_ok = mb.status == 1 && now >= mb.due;
        if mb.status == 1 && now == mb.due {
            self.stats.probe("deliver_exactly_at_unbonding_end");
        }
        if mb.status == 1 && now + 1 == mb.due {
            self.stats.probe("deliver_one_second_early");
        }
        if mb.status == 2 {
            self.stats.probe("duplicate_delivery_attempt");
            self.stats.fault("F10_duplicate_delivery");
        }
        let accept = !self.m.halted && genuine && due_ok;
        if !res.ok {
            if accept && !res.env_fault && !res.panicked {
                if res.err.contains("Unauthorized") {
                    self.v("C09", "genuine_staker_accepted", format!("delivery from the true staker via {} refused: {}", acct, res.err));
                } else {
                    self.v("C06", "receive_when_due", format!("delivery for submitted batch {} at now={} due={} refused: {}", id, now, mb.due, res.err));
                }
            }
            return;
        }
        if !accept {
            if self.m.halted {
                self.v("C10", "halted_refuses_receive_unstaked", "ReceiveUnstakedTokens succeeded while halted".into());
            } else if matches!(mode, Deliver::WrongDenom) {
                let m = format!("batch {} became Received with {} units of a token that is not the staked asset; payouts from it are taken from other claims", id, amount);
                self.v("C05", "received_counts_the_staked_asset_only", m.clone());
                self.v("C02", "received_counts_the_staked_asset_only", m.clone());
                self.v("C06", "received_only_by_payment_of_the_staked_asset", m);
            } else if !genuine {
                self.v("C08", "receive_unstaked_staker_only", format!("ReceiveUnstakedTokens from {} accepted", acct));
                self.v("C09", "impostor_refused", format!("ReceiveUnstakedTokens accepted from {} ({:?})", acct, mode));
                self.v("C06", "received_only_from_the_staker", format!("batch {} became Received through a payment by {} ({:?}), not by the authenticated staker", id, acct, mode));
            } else {
                self.v("C06", "receive_only_submitted_and_due", format!("batch {} (status {}) accepted delivery at now={} due={}", id, mb.status, now, mb.due));
                if mb.status == 2 {
                    self.v("C05", "received_amount_fixed_once_received", format!("batch {} had received {:?} and accepted another delivery of {}: later payouts use a different base", id, mb.received, amount));
                }
            }
        }
        // the amount recorded for the batch is what arrived: it is the base of every pro-rata payout
        // (C05) and of what the contract owes (C02)
        let recorded = self.q(json!({"batch": {"id": id}})).map(|v| u(&v["received_native_unstaked"]));
        if accept && recorded != Some(amount) {
            self.v("C05", "received_amount_recorded", format!("batch {} received {} but records {:?}", id, amount, recorded));
            self.v("C02", "received_amount_recorded", format!("batch {} received {} but records {:?}", id, amount, recorded));
        }
        if let Some(b) = self.m.batches.get_mut(&id) {
            b.status = 2;
            b.received = Some(amount);
            b.due = 0;
        }
    }

    fn op_rewards(&mut self, amount: u128, mode: Deliver) {
        if amount == 0 {
            return;
        }
        let collector = self.m.cfg.collector.clone();
        let nd = self.w.setup.native_denom.clone();
        if matches!(mode, Deliver::Exact | Deliver::Short(_) | Deliver::Long(_)) {
            // staking rewards appear on the collector's account
            self.w.st.native.credit(&collector, &nd, amount);
        }
        let mode = match mode {
            Deliver::Short(_) | Deliver::Long(_) => Deliver::Exact,
            m => m,
        };
        self.in_domain = self.domain_ok(&[amount]) && self.m.cfg.fee_rate <= 1_000_000_000 && Self::rate_ok(self.m.n.saturating_add(amount), self.m.l);
        let fee_opt = mul_div(self.m.cfg.fee_rate, amount, 100_000);
        let (n, l) = (self.m.n, self.m.l);
        let msg = json!({"receive_rewards": {}});
        let treasury_pre = self.m.cfg.treasury.clone();
        let (acct, genuine, res) = match self.hook_call(&collector, mode, amount, &msg, Origin::Rewards) {
            Some(x) => x,
            None => return,
        };
        let fee = fee_opt.unwrap_or(u128::MAX);
        if !res.ok {
            if !self.m.halted && genuine && l > 0 && fee < amount && !res.env_fault && !res.panicked && res.err.contains("Unauthorized") {
                self.v("C09", "genuine_collector_accepted", format!("rewards from the true collector via {} refused: {}", acct, res.err));
            }
            if l == 0 {
                self.stats.probe("rewards_refused_without_lst");
            }
            if fee > amount {
                self.stats.probe("rewards_refused_rate_above_100pct");
            }
            return;
        }
        // observational: the model below follows what was executed
        if self.m.halted {
            self.vo("C10", "halted_refuses_rewards", "ReceiveRewards succeeded while halted".into());
        } else if matches!(mode, Deliver::WrongDenom) {
            let m = format!("ReceiveRewards counted {} units of a token that is not the staked asset as rewards", amount);
            self.v("C11", "rewards_counted_in_the_staked_asset_only", m.clone());
            self.v("C01", "rewards_counted_in_the_staked_asset_only", m);
        } else if !genuine {
            self.vo("C08", "receive_rewards_collector_only", format!("ReceiveRewards from {} accepted", acct));
            self.vo("C09", "impostor_refused", format!("ReceiveRewards accepted from {} ({:?})", acct, mode));
        } else if l == 0 {
            self.vo("C11", "rewards_refused_without_lst", "ReceiveRewards succeeded with no LST in existence".into());
        } else if fee > amount {
            self.vo("C11", "fee_never_exceeds_reward", format!("reward {} accepted with fee rate {}", amount, self.m.cfg.fee_rate));
        }
        let fee = fee.min(amount);
        let s = self.s_addr();
        let ibc = self.ibc();
        let sent: Vec<Packet> = res.effects.iter().filter_map(|e| match e { Effect::IbcSend { pkt } => Some(self.w.st.packets[*pkt].clone()), _ => None }).collect();
        let fw: u128 = sent.iter().filter(|p| p.denom == ibc && p.receiver == self.m.cfg.staker).map(|p| p.amount).sum();
        if sent.len() != 1 || fw != amount - fee {
            self.v("C11", "restaked_is_reward_minus_fee", format!("reward {} fee {} but forwarded {:?}", amount, fee, sent.iter().map(|p| (p.amount, p.denom.clone(), p.receiver.clone())).collect::<Vec<_>>()));
        }
        let to_treasury: u128 = match &treasury_pre {
            Some(t) => res.sent(&s, t, &ibc),
            None => 0,
        };
        let to_anyone: u128 = res.effects.iter().map(|e| match e { Effect::BankSend { from, denom, amount, .. } if *from == s && *denom == ibc => *amount, _ => 0 }).sum();
        match &treasury_pre {
            Some(_) => {
                if to_treasury != fee || to_anyone != fee {
                    self.v("C11", "fee_paid_to_treasury_same_tx", format!("fee {} but treasury received {} (total bank outflow {})", fee, to_treasury, to_anyone));
                }
            }
            None => {
                if to_anyone != 0 {
                    self.v("C11", "fee_accrues_without_treasury", format!("no treasury configured but {} left the contract", to_anyone));
                }
                self.m.fees += fee;
            }
        }
        if fee > 0 {
            self.stats.probe("reward_with_nonzero_fee");
        }
        self.m.n = n + (amount - fee);
        self.m.rewards += amount;
        self.totals_prop = "C11";
    }

    // --------------------------------------------------------------------------------------------
    // stray callbacks
    // --------------------------------------------------------------------------------------------

    fn op_stray(&mut self, k: StrayKind) {
        let ch = self.m.cfg.channel.clone();
        let other = self.other_channel(1);
        let s = self.s_addr();
        // a sequence of ours that is still awaiting its acknowledgement if there is one, else any still recorded
        let open_seq: Option<u64> = self
            .w
            .st
            .packets
            .iter()
            .filter(|p| p.sender == s && matches!(p.state, PState::InFlight | PState::RecvOk | PState::RecvErr))
            .map(|p| p.seq)
            .last()
            .or_else(|| self.w.st.packets.iter().filter(|p| p.sender == s && !matches!(p.state, PState::AckedOk) && !self.m.recovered.contains(&p.id)).map(|p| p.seq).next());
        let closed_seq: Option<u64> = self.w.st.packets.iter().filter(|p| p.sender == s && p.state == PState::AckedOk && !self.m.lost_cb.contains(&p.id)).map(|p| p.seq).last();
        let unknown = self.w.st.channels.get(&ch).map(|c| c.next_seq + 5).unwrap_or(99);
        let msg = match k {
            StrayKind::OtherChannelAck { success } => json!({"ibc_lifecycle_complete": {"ibc_ack": {"channel": other, "sequence": open_seq.unwrap_or(1), "ack": "{}", "success": success}}}),
            StrayKind::OtherChannelTimeout => json!({"ibc_lifecycle_complete": {"ibc_timeout": {"channel": other, "sequence": open_seq.unwrap_or(1)}}}),
            StrayKind::UnknownSeqAck { success } => json!({"ibc_lifecycle_complete": {"ibc_ack": {"channel": ch, "sequence": unknown, "ack": "{}", "success": success}}}),
            StrayKind::UnknownSeqTimeout => json!({"ibc_lifecycle_complete": {"ibc_timeout": {"channel": ch, "sequence": unknown}}}),
            StrayKind::ClosedSeqAck { success } => match closed_seq {
                Some(q) => json!({"ibc_lifecycle_complete": {"ibc_ack": {"channel": ch, "sequence": q, "ack": "{}", "success": success}}}),
                None => return,
            },
            StrayKind::ClosedSeqTimeout => match closed_seq {
                Some(q) => json!({"ibc_lifecycle_complete": {"ibc_timeout": {"channel": ch, "sequence": q}}}),
                None => return,
            },
        };
        self.stats.fault("F5_stray_callback");
        let pre = self.w.st.staking.map.clone();
        let r = self.w.tx_sudo(&msg.to_string(), self.step_no % 2 == 0);
        let r = self.after_tx(r);
        if self.w.st.staking.map != pre {
            self.vo("C07", "stray_callback_changes_nothing", format!("callback {:?} changed contract storage", k));
        }
        if !r.effects.iter().all(|e| matches!(e, Effect::Exec { .. })) && !r.effects.is_empty() {
            self.vo("C07", "stray_callback_changes_nothing", format!("callback {:?} emitted messages", k));
        }
    }

    // --------------------------------------------------------------------------------------------
    // faults
    // --------------------------------------------------------------------------------------------

    fn op_fault(&mut self, f: &FaultOp) {
        if !self.sw.faults {
            return;
        }
        let ch = self.m.cfg.channel.clone();
        match f {
            FaultOp::FailNextIbcSubmit { skip } => {
                self.w.faults.fail_ibc_submit = 1;
                self.w.faults.skip_ibc_submit = *skip as u32 % 2;
            }
            FaultOp::CloseChannel => {
                if let Some(c) = self.w.st.channels.get_mut(&ch) {
                    c.open = false;
                }
                self.stats.fault("F1_channel_closed");
            }
            FaultOp::OpenChannel => {
                if let Some(c) = self.w.st.channels.get_mut(&ch) {
                    c.open = true;
                }
            }
            FaultOp::OracleRejects => {
                if !self.no_oracle_faults {
                    self.w.faults.oracle_rejects = 1
                }
            }
            FaultOp::TokenFactoryRejects => self.w.faults.tf_rejects = 1,
            FaultOp::AbortAtStorageAccess(k) => {
                // the number of storage accesses legitimately depends on the oracle being configured
                if !self.no_oracle_faults {
                    self.w.faults.abort_at_access = Some(1 + *k as u64 % 40)
                }
            }
            FaultOp::ReplyData(m) => self.w.faults.reply_data_mode = 1 + (*m % 2),
            FaultOp::BackgroundTraffic(n) => {
                self.w.background_traffic(*n as u64);
                self.stats.fault("F19_background_traffic");
            }
        }
    }
}
