//! Host-side seams the contracts already use: Storage, Api, panic capture.

use crate::util::{b32_decode, b32_encode, B32Variant};
use cosmwasm_std::{
    Addr, Api, CanonicalAddr, Order, Record, RecoverPubkeyError, StdError, StdResult, Storage,
    VerificationError,
};
use std::cell::{Cell, RefCell};
use std::collections::BTreeMap;
use std::ops::Bound;

/// Payload of the panic raised when the injected gas limit (k-th storage access) is hit.
pub struct OutOfGas;

/// Cloneable ordered store with an access counter and an abort-at-k-th-access fault.
#[derive(Clone, Default, Debug)]
pub struct SimStorage {
    pub map: BTreeMap<Vec<u8>, Vec<u8>>,
    pub accesses: Cell<u64>,
    pub abort_at: Cell<Option<u64>>,
}

impl PartialEq for SimStorage {
    fn eq(&self, o: &Self) -> bool {
        self.map == o.map
    }
}

impl SimStorage {
    fn tick(&self) {
        let n = self.accesses.get() + 1;
        self.accesses.set(n);
        if let Some(k) = self.abort_at.get() {
            if n >= k {
                self.abort_at.set(None);
                std::panic::panic_any(OutOfGas);
            }
        }
    }
}

impl Storage for SimStorage {
    fn get(&self, key: &[u8]) -> Option<Vec<u8>> {
        self.tick();
        self.map.get(key).cloned()
    }
    fn range<'a>(
        &'a self,
        start: Option<&[u8]>,
        end: Option<&[u8]>,
        order: Order,
    ) -> Box<dyn Iterator<Item = Record> + 'a> {
        self.tick();
        if let (Some(s), Some(e)) = (start, end) {
            if s >= e {
                return Box::new(std::iter::empty());
            }
        }
        let lo = match start {
            Some(s) => Bound::Included(s.to_vec()),
            None => Bound::Unbounded,
        };
        let hi = match end {
            Some(e) => Bound::Excluded(e.to_vec()),
            None => Bound::Unbounded,
        };
        let it = self.map.range((lo, hi)).map(|(k, v)| (k.clone(), v.clone()));
        match order {
            Order::Ascending => Box::new(it),
            Order::Descending => Box::new(it.rev()),
        }
    }
    fn set(&mut self, key: &[u8], value: &[u8]) {
        self.tick();
        if value.is_empty() {
            // the real VM refuses empty values
            panic!("TL;DR: Value must not be empty in Storage::set");
        }
        self.map.insert(key.to_vec(), value.to_vec());
    }
    fn remove(&mut self, key: &[u8]) {
        self.tick();
        self.map.remove(key);
    }
}

/// Address validation as wasmd does it: bech32 (not bech32m), the chain's own prefix, lower case.
#[derive(Clone, Debug)]
pub struct SimApi {
    pub prefix: String,
}

impl Api for SimApi {
    fn addr_validate(&self, human: &str) -> StdResult<Addr> {
        let c = self.addr_canonicalize(human)?;
        let n = self.addr_humanize(&c)?;
        if n.as_str() != human {
            return Err(StdError::generic_err("address not normalized"));
        }
        Ok(n)
    }
    fn addr_canonicalize(&self, human: &str) -> StdResult<CanonicalAddr> {
        match b32_decode(human) {
            Some((hrp, data, B32Variant::Bech32)) if hrp == self.prefix && !data.is_empty() && data.len() <= 255 => {
                Ok(CanonicalAddr::from(data))
            }
            _ => Err(StdError::generic_err("invalid bech32 address")),
        }
    }
    fn addr_humanize(&self, canonical: &CanonicalAddr) -> StdResult<Addr> {
        Ok(Addr::unchecked(b32_encode(&self.prefix, canonical.as_slice())))
    }
    fn secp256k1_verify(&self, _: &[u8], _: &[u8], _: &[u8]) -> Result<bool, VerificationError> {
        Err(VerificationError::unknown_err(0))
    }
    fn secp256k1_recover_pubkey(&self, _: &[u8], _: &[u8], _: u8) -> Result<Vec<u8>, RecoverPubkeyError> {
        Err(RecoverPubkeyError::unknown_err(0))
    }
    fn ed25519_verify(&self, _: &[u8], _: &[u8], _: &[u8]) -> Result<bool, VerificationError> {
        Err(VerificationError::unknown_err(0))
    }
    fn ed25519_batch_verify(&self, _: &[&[u8]], _: &[&[u8]], _: &[&[u8]]) -> Result<bool, VerificationError> {
        Err(VerificationError::unknown_err(0))
    }
    fn debug(&self, _message: &str) {}
}

// ------------------------------------------------------------------------------------------------
// Panic capture. A process-wide hook stores the message and location in a thread-local and prints
// nothing; `guarded` runs a closure under catch_unwind and classifies the outcome.
// ------------------------------------------------------------------------------------------------

thread_local! {
    static LAST_PANIC: RefCell<Option<String>> = RefCell::new(None);
    static IN_GUARD: Cell<u32> = Cell::new(0);
}

pub fn install_panic_hook() {
    let default = std::panic::take_hook();
    std::panic::set_hook(Box::new(move |info| {
        let guarded = IN_GUARD.with(|g| g.get()) > 0;
        if guarded {
            let msg = if let Some(s) = info.payload().downcast_ref::<&str>() {
                s.to_string()
            } else if let Some(s) = info.payload().downcast_ref::<String>() {
                s.clone()
            } else if info.payload().downcast_ref::<OutOfGas>().is_some() {
                "<out of gas>".to_string()
            } else {
                "<non-string panic>".to_string()
            };
            let loc = info
                .location()
                .map(|l| format!("{}:{}", l.file(), l.line()))
                .unwrap_or_default();
            LAST_PANIC.with(|p| *p.borrow_mut() = Some(format!("{} at {}", msg, loc)));
        } else {
            default(info);
        }
    }));
}

pub enum Guarded<T> {
    Done(T),
    Panicked(String),
    OutOfGas,
}

pub fn guarded<T>(f: impl FnOnce() -> T) -> Guarded<T> {
    IN_GUARD.with(|g| g.set(g.get() + 1));
    let r = std::panic::catch_unwind(std::panic::AssertUnwindSafe(f));
    IN_GUARD.with(|g| g.set(g.get() - 1));
    match r {
        Ok(v) => Guarded::Done(v),
        Err(payload) => {
            if payload.downcast_ref::<OutOfGas>().is_some() {
                Guarded::OutOfGas
            } else {
                let m = LAST_PANIC.with(|p| p.borrow_mut().take()).unwrap_or_else(|| "<panic>".into());
                Guarded::Panicked(m)
            }
        }
    }
}
