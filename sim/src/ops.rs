//! Operation language (the schedule-and-fault trace) and the per-run swarm configuration.

use serde::{Deserialize, Serialize};

/// u128 as decimal string (serde_json::Value cannot hold integers above u64)
pub mod ustr {
    use serde::{Deserialize, Deserializer, Serializer};
    pub fn serialize<S: Serializer>(v: &u128, s: S) -> Result<S::Ok, S::Error> {
        s.serialize_str(&v.to_string())
    }
    pub fn deserialize<'de, D: Deserializer<'de>>(d: D) -> Result<u128, D::Error> {
        let s = String::deserialize(d)?;
        s.parse().map_err(serde::de::Error::custom)
    }
}

#[derive(Serialize, Deserialize, Clone, Debug, PartialEq)]
pub enum Rcpt {
    /// no mint_to: the sender itself
    Absent,
    /// mint_to = the sender's own address, explicitly
    SelfAddr,
    Proto(u8),
    Native(u8),
    /// a native address written in the (legal) all-upper-case bech32 form
    NativeUpper(u8),
    NativeStaker,
    Garbage(u8),
}

#[derive(Serialize, Deserialize, Clone, Copy, Debug, PartialEq)]
pub enum Via {
    Direct,
    Proxy,
    Hook,
}

#[derive(Serialize, Deserialize, Clone, Copy, Debug, PartialEq)]
pub enum Expect {
    None,
    Exact,
    TooHigh,
    Low,
}

#[derive(Serialize, Deserialize, Clone, Copy, Debug, PartialEq)]
pub enum Deliver {
    Exact,
    /// percent of expected, < 100
    Short(u8),
    /// percent of expected, > 100
    Long(u16),
    /// arrives over another channel (different voucher denom, different intermediate account)
    OtherChannel,
    /// right channel, another native account
    OtherAccount,
    /// the reward collector sends the unstaked-tokens message (role swap)
    RoleSwap,
    /// an ordinary protocol-chain account calls directly with staked-asset funds
    DirectCall,
    /// the genuine native account over the configured channel, but paying with another native-chain token
    /// (it arrives as a different voucher denom): nothing of the staked asset has been received
    WrongDenom,
    /// a privileged or otherwise known protocol-chain account (admin, monitor, treasury, ...) calls directly
    /// with staked-asset funds: no role on the protocol chain substitutes for the ibc-hooks account
    DirectBy(Who),
}

#[derive(Serialize, Deserialize, Clone, Copy, Debug, PartialEq, Eq, PartialOrd, Ord)]
pub enum Who {
    Admin,
    FormerAdmin,
    Nominee,
    Monitor(u8),
    RemovedMonitor,
    StakerHook,
    CollectorHook,
    SelfContract,
    Treasury,
    Oracle,
    User(u8),
    Proxy(u8),
    Candidate(u8),
}

#[derive(Serialize, Deserialize, Clone, Debug, PartialEq)]
pub enum CfgSection {
    /// fee rate, treasury present?
    Fee { #[serde(with = "ustr")] rate: u128, treasury: bool },
    BatchPeriod(u64),
    Monitors(Vec<u8>),
    /// native section: unbonding period, validators subset, new staker/collector index (quiescent only)
    Native {
        unbonding: u64,
        validators: Vec<u8>,
        staker: u8,
        collector: u8,
        /// configure staker and collector in upper-case bech32 (accepted by validation)
        #[serde(default)]
        upper: bool,
    },
    /// protocol section: min stake, oracle present?, channel number (quiescent only)
    Protocol {
        #[serde(with = "ustr")]
        min_stake: u128,
        oracle: bool,
        channel: u64,
        /// spelling of the channel id (value mod 4): 0/1 canonical, 2 leading zeros, 3 explicit plus sign (all accepted
        /// by validation); values 4..7 additionally write the oracle address in upper case
        #[serde(default)]
        spell: u8,
    },
}

#[derive(Serialize, Deserialize, Clone, Debug, PartialEq)]
pub enum AdminOp {
    Breaker,
    Resume { #[serde(with = "ustr")] n: u128, #[serde(with = "ustr")] l: u128, #[serde(with = "ustr")] r: u128 },
    /// resume with the current totals (honest restart)
    ResumeSame,
    /// resume with the current staked and LST totals but another reward total (a correction of the counter alone)
    ResumeRewardOnly { #[serde(with = "ustr")] r: u128 },
    UpdateConfig(Vec<CfgSection>),
    FeeWithdraw { #[serde(with = "ustr")] amount: u128 },
    /// withdraw min(amount, accrued)
    FeeWithdrawPct { pct: u8 },
    AddValidator(u8),
    RemoveValidator(u8),
    Transfer(u8),
    Revoke,
    Accept,
    ForcedRecover { ids: Vec<u64>, receiver: Option<u8>, honest: bool },
}

#[derive(Serialize, Deserialize, Clone, Debug, PartialEq)]
pub enum FaultOp {
    FailNextIbcSubmit { skip: u8 },
    CloseChannel,
    OpenChannel,
    OracleRejects,
    TokenFactoryRejects,
    AbortAtStorageAccess(u16),
    BackgroundTraffic(u16),
    /// the transfer module accepts the next submission but answers without (0) or with undecodable (1) response data
    ReplyData(u8),
}

#[derive(Serialize, Deserialize, Clone, Copy, Debug, PartialEq)]
pub enum StrayKind {
    OtherChannelAck { success: bool },
    OtherChannelTimeout,
    UnknownSeqAck { success: bool },
    UnknownSeqTimeout,
    /// sequence of a packet already closed by a success acknowledgement
    ClosedSeqAck { success: bool },
    ClosedSeqTimeout,
}

#[derive(Serialize, Deserialize, Clone, Debug, PartialEq)]
pub enum QueryOp {
    Batches { start_after: Option<u64>, limit: Option<u32>, status: Option<u8> },
    Walk { limit: u32, status: Option<u8> },
    ByIds(Vec<u64>),
    Queue { start_after: Option<u64>, limit: Option<u32> },
    QueueWalk { limit: u32 },
    Requests(u8),
    Hostile(u8),
}

#[derive(Serialize, Deserialize, Clone, Debug, PartialEq)]
pub enum Op {
    Advance { secs: u64 },
    /// jump to `delta` seconds relative to the next interesting deadline (-1, 0, +1, ...)
    ToDeadline { which: u8, delta: i64 },
    Stake { user: u8, #[serde(with = "ustr")] amount: u128, rcpt: Rcpt, flag: Option<bool>, expect: Expect, via: Via },
    Unstake { user: u8, #[serde(with = "ustr")] amount: u128 },
    /// unstake a percentage of the user's LST balance
    UnstakePct { user: u8, pct: u8 },
    SubmitBatch { caller: Who },
    Withdraw { user: u8, batch: u8 },
    WithdrawAs { who: Who, batch: u8 },
    Recover { caller: Who, paginated: Option<bool>, receiver: Option<u8> },
    OpDeliver { batch: u8, mode: Deliver },
    OpRewards { #[serde(with = "ustr")] amount: u128, mode: Deliver },
    OpSlash { pct: u8 },
    RelayRecv { pkt: u8, ok: bool },
    RelayAck { pkt: u8 },
    RelayTimeout { pkt: u8 },
    /// receive + acknowledge in one go
    RelayFull { pkt: u8, ok: bool },
    LoseCallback { pkt: u8 },
    Stray(StrayKind),
    Admin(AdminOp),
    /// the same admin-type message sent by somebody else
    Intruder { who: Who, msg: AdminOp },
    IntruderBreaker { who: Who },
    Fault(FaultOp),
    Query(QueryOp),
    /// migration in the middle of a run (F18): project to 1.0.0 layout and migrate
    MigrateMid { synthetic_replies: u8 },
    HostileReply { id_sel: u8, ok: bool, data: u8 },
    HostileExec { who: Who, kind: u8 },
    /// LiquidStake (or LiquidUnstake) whose funds carry a second coin besides the expected one: extra_kind 0 =
    /// the other token of the protocol (LST on a stake, staked asset on an unstake), 1 = an unrelated denom.
    /// Must be refused: a coin the handler does not account for would stay in the contract, owned by nobody.
    ExtraFunds { user: u8, unstake: bool, #[serde(with = "ustr")] amount: u128, extra_kind: u8, #[serde(with = "ustr")] extra: u128 },
    /// unsolicited deposit (F22): somebody bank-sends tokens to the staking contract without calling it.
    /// kind 0 = staked asset, 1 = liquid staking token (from the user's holdings), 2 = an unrelated denom
    Donate { user: u8, kind: u8, #[serde(with = "ustr")] amount: u128 },
}

#[derive(Serialize, Deserialize, Clone, Copy, Debug, PartialEq, Eq)]
pub enum Profile {
    /// full staking world, balanced
    General,
    /// many exits, deliveries, withdrawals
    Exit,
    /// IBC failures, recoveries
    Ibc,
    /// admin, intruders, handover
    Admin,
    /// rate extremes, rounding boundaries
    Rates,
    /// reward / fee heavy
    Fees,
    /// queries heavy
    Queries,
    /// hostile inputs
    Hostile,
    /// batch lifecycle and deadlines
    Lifecycle,
    /// circuit breaker
    Halt,
    /// restricted to protocol-chain recipients, with mid-run migration
    Upgrade,
    /// one account, tiny unstakes, a submission per batch period: many batches and many open requests
    ManyBatches,
    /// a failing channel: most transfers are refused by the destination, so refunded transfers pile up (more
    /// than one page of them for one receiver) before anybody recovers them
    Backlog,
}

#[derive(Serialize, Deserialize, Clone, Debug, PartialEq)]
pub struct Swarm {
    pub profile: Profile,
    pub proto_prefix: String,
    pub native_prefix: String,
    pub channel: u64,
    pub batch_period: u64,
    pub unbonding: u64,
    #[serde(with = "ustr")]
    pub min_stake: u128,
    #[serde(with = "ustr")]
    pub fee_rate: u128,
    pub treasury: bool,
    pub oracle: bool,
    pub monitors: u8,
    pub users: u8,
    /// amounts are drawn around 10^scale
    pub scale: u8,
    /// initial totals installed by the first resume (0,0 = plain start)
    #[serde(with = "ustr")]
    pub init_n: u128,
    #[serde(with = "ustr")]
    pub init_l: u128,
    pub honest: bool,
    pub faults: bool,
    pub skew: i64,
    pub n_ops: u32,
    pub start_s: u64,
    pub base_tx_index: u32,
    /// whether the chain's transfer module accepts zero-amount transfers (ibc-go refuses them; varied so
    /// that no check relies on a downstream module masking an arithmetic slip)
    #[serde(default)]
    pub zero_ibc_ok: bool,
    /// whether the token factory accepts zero-amount mints (the real modules refuse them)
    #[serde(default)]
    pub zero_tf_ok: bool,
    /// list the monitors at instantiation in the reverse of the usual order (the list is a set: no
    /// behaviour may depend on how it happens to be sorted)
    #[serde(default)]
    pub mon_rev: bool,
    /// block times carry a sub-second part
    #[serde(default)]
    pub sub_second: bool,
}
