//! placeholder, filled in later
use crate::run::Eval;
use serde::{Deserialize, Serialize};

#[derive(Serialize, Deserialize, Clone, Debug, PartialEq)]
pub struct TCase {}

pub fn eval(_c: &TCase) -> Eval {
    Eval::default()
}

pub fn gen(_seed: u64, _prop: &str) -> TCase {
    TCase {}
}
