//! Multi-party histories against the real treasury contract (C13, the treasury half of C12, C16).

use crate::engine::{addr20, addr32, Violation, WEEK};
use crate::ops::ustr;
use crate::run::Eval;
use crate::util::*;
use crate::world::*;
use serde::{Deserialize, Serialize};
use serde_json::{json, Value};

pub const DENOMS: &[&str] = &["uosmo", "ibc/27394FB092D2ECCD56123C74F36E4C1F926001CEADA9CA97EA622B25F41E5EB2", "uatom", "factory/osmo1xyz/milkTIA", "utia", ""];

#[derive(Serialize, Deserialize, Clone, Debug, PartialEq)]
pub struct Hop {
    pub pool: u64,
    pub din: u8,
    pub dout: u8,
    /// free-form spelling that replaces `DENOMS[din]` / `DENOMS[dout]` (denoms may legally contain
    /// `/ : . _ -`, so a hop can be spelled to look like the concatenation of two allow-listed hops)
    #[serde(default, skip_serializing_if = "Option::is_none")]
    pub din_x: Option<String>,
    #[serde(default, skip_serializing_if = "Option::is_none")]
    pub dout_x: Option<String>,
}

fn hin(h: &Hop) -> &str {
    h.din_x.as_deref().unwrap_or_else(|| dn(h.din))
}

fn hout(h: &Hop) -> &str {
    h.dout_x.as_deref().unwrap_or_else(|| dn(h.dout))
}

#[derive(Serialize, Deserialize, Clone, Debug, PartialEq)]
pub enum TOp {
    Advance(u64),
    ToMinTime(i64),
    Swap { who: u8, exact_in: bool, route: Vec<Hop>, denom: u8, #[serde(with = "ustr")] amount: u128, #[serde(with = "ustr")] limit: u128 },
    Spend { who: u8, denom: u8, #[serde(with = "ustr")] amount: u128, receiver: u8, channel: Option<u8> },
    UpdateConfig { who: u8, trader: Option<u8>, routes: Option<Vec<Vec<Hop>>> },
    Transfer { who: u8, cand: u8 },
    Revoke { who: u8 },
    Accept { who: u8 },
    Query,
    Migrate { stored_name: u8, stored_version: u8 },
}

#[derive(Serialize, Deserialize, Clone, Debug, PartialEq)]
pub struct TCase {
    pub routes: Vec<Vec<Hop>>,
    pub admin_explicit: bool,
    pub trader_explicit: bool,
    pub ops: Vec<TOp>,
    pub start_s: u64,
    /// module strictness is a swarm dimension: a bank that accepts any recipient string
    #[serde(default)]
    pub lenient_bank: bool,
    #[serde(default)]
    pub sub_second: bool,
}

fn dn(i: u8) -> &'static str {
    DENOMS[i as usize % DENOMS.len()]
}

fn routes_json(r: &[Vec<Hop>]) -> Value {
    json!(r.iter().map(|rt| rt.iter().map(|h| json!({"pool_id": h.pool, "token_in_denom": hin(h), "token_out_denom": hout(h)})).collect::<Vec<_>>()).collect::<Vec<_>>())
}

fn gen_route(rng: &mut Rng) -> Vec<Hop> {
    // an allow-list may (pointlessly but legally) contain an empty route
    let n = if rng.chance(1, 12) { 0 } else { rng.range(1, 4) };
    (0..n).map(|_| Hop { pool: *rng.pick(&[0u64, 1, 2, 7, 1000, u64::MAX]), din: rng.below(5) as u8, dout: rng.below(5) as u8, din_x: None, dout_x: None }).collect()
}

fn derive_route(rng: &mut Rng, list: &[Vec<Hop>]) -> Vec<Hop> {
    if list.is_empty() || rng.chance(1, 10) {
        return if rng.chance(1, 3) { vec![] } else { gen_route(rng) };
    }
    let a = rng.pick(list).clone();
    let plain = a.iter().all(|h| h.din_x.is_none() && h.dout_x.is_none());
    match rng.below(10) {
        9 if a.len() >= 2 && plain => {
            // two consecutive allow-listed hops spelled as ONE hop: the second hop's pool and denoms are
            // folded into a denom string with a separator that is legal inside denoms (only plain hops
            // are folded, so spellings never nest and stay short)
            let i = rng.below(a.len() as u64 - 1) as usize;
            let sep = *rng.pick(&["/", "/", "/", ":", ".", "_", "-"]);
            let (h1, h2) = (a[i].clone(), a[i + 1].clone());
            let mut m = h1.clone();
            m.dout = h2.dout;
            if rng.chance(1, 2) {
                m.dout_x = Some(format!("{}{sep}{}{sep}{}{sep}{}", hout(&h1), h2.pool, hin(&h2), hout(&h2)));
            } else {
                m.din_x = Some(format!("{}{sep}{}{sep}{}{sep}{}", hin(&h1), hout(&h1), h2.pool, hin(&h2)));
            }
            let mut b = a[..i].to_vec();
            b.push(m);
            b.extend_from_slice(&a[i + 2..]);
            b
        }
        0..=3 => a,
        4 => a[..rng.below(a.len() as u64) as usize].to_vec(),
        5 => a[rng.below(a.len() as u64) as usize..].to_vec(),
        6 => {
            let mut b = a.clone();
            b.reverse();
            b
        }
        7 => {
            let mut b = a.clone();
            b.extend(rng.pick(list).clone());
            b
        }
        _ => {
            let mut b = a.clone();
            if !b.is_empty() {
                let i = rng.below(b.len() as u64) as usize;
                match rng.below(3) {
                    0 => b[i].pool = b[i].pool.wrapping_add(1),
                    1 => b[i].din = (b[i].din + 1) % 5,
                    _ => b[i].dout = (b[i].dout + 1) % 5,
                }
            }
            b
        }
    }
}

pub fn gen(seed: u64, prop: &str) -> TCase {
    let mut rng = Rng::new(seed);
    let nr = rng.below(5);
    let mut routes: Vec<Vec<Hop>> = (0..nr).map(|_| gen_route(&mut rng)).collect();
    let n_ops = rng.range(8, 40);
    let mut ops = vec![];
    let own_heavy = prop == "C12";
    let mut nominated = false;
    for _ in 0..n_ops {
        let k = if own_heavy { rng.below(8) + 4 } else { rng.below(14) };
        let op = match k {
            0..=4 => {
                let route = derive_route(&mut rng, &routes);
                let exact_in = rng.chance(1, 2);
                let denom = if !route.is_empty() && rng.chance(3, 4) {
                    if exact_in {
                        route[0].din
                    } else {
                        route[route.len() - 1].dout
                    }
                } else {
                    rng.below(6) as u8
                };
                TOp::Swap { who: if rng.chance(2, 3) { 1 } else { rng.below(6) as u8 }, exact_in, route, denom, amount: *rng.pick(&[0u128, 1, 1000, 123456789, u128::MAX]), limit: *rng.pick(&[0u128, 1, 999, u128::MAX]) }
            }
            5 | 6 => TOp::Spend { who: if rng.chance(2, 3) { 0 } else { rng.below(6) as u8 }, denom: rng.below(5) as u8, amount: *rng.pick(&[1u128, 1000, 5_000_000]), receiver: rng.below(14) as u8, channel: if rng.chance(1, 2) { Some(rng.below(4) as u8) } else { None } },
            7 => {
                // sometimes the admin re-submits the list unchanged (e.g. while rotating the trader)
                let new_routes = match rng.below(6) {
                    0 | 1 => Some(routes.clone()),
                    2 | 3 => Some((0..rng.below(4)).map(|_| gen_route(&mut rng)).collect::<Vec<_>>()),
                    _ => None,
                };
                if let Some(r) = &new_routes {
                    if rng.chance(2, 3) {
                        routes = r.clone();
                    }
                }
                TOp::UpdateConfig { who: if rng.chance(2, 3) { 0 } else { rng.below(6) as u8 }, trader: if rng.chance(1, 2) { Some(rng.below(7) as u8) } else { None }, routes: new_routes }
            }
            8 => {
                nominated = true;
                TOp::Transfer { who: if rng.chance(3, 4) { 0 } else { rng.below(6) as u8 }, cand: if rng.chance(1, 6) { 7 } else { rng.below(4) as u8 } }
            }
            9 => TOp::Revoke { who: if rng.chance(1, 2) { 0 } else { rng.below(6) as u8 } },
            10 => TOp::Accept { who: rng.below(6) as u8 },
            11 => {
                if nominated {
                    TOp::ToMinTime(*rng.pick(&[-1i64, 0, 1]))
                } else {
                    TOp::Advance(*rng.pick(&[1u64, 3600, 86_400, 7 * 86_400]))
                }
            }
            12 => TOp::Query,
            _ => TOp::Migrate { stored_name: rng.below(3) as u8, stored_version: rng.below(6) as u8 },
        };
        ops.push(op);
    }
    TCase { routes, admin_explicit: rng.chance(1, 2), trader_explicit: rng.chance(1, 2), ops, start_s: 1_700_000_000 + rng.below(50_000_000), lenient_bank: rng.chance(3, 10), sub_second: rng.chance(1, 2) }
}

struct TModel {
    admin: String,
    /// index into the principal table of the current admin (who == 0 always means "current admin")
    nominee: Option<(String, u64)>,
    trader: String,
    routes: Vec<Vec<Hop>>,
    former: Vec<String>,
}

pub fn eval(c: &TCase) -> Eval {
    let setup = Setup {
        proto_prefix: "osmo".into(),
        native_prefix: "celestia".into(),
        valoper_prefix: "celestiavaloper".into(),
        channel: "channel-0".into(),
        ibc_denom: DENOMS[1].into(),
        native_denom: "utia".into(),
        subdenom: "milkTIA".into(),
        staking_addr: addr32("osmo", "staking-contract"),
        treasury_addr: addr32("osmo", "treasury-contract"),
        oracle_addr: addr32("osmo", "oracle-contract"),
        sink_addr: addr32("osmo", "sink-contract"),
    };
    let t = setup.treasury_addr.clone();
    let mut w = World::new(setup, c.start_s * 1_000_000_000);
    w.st.channels.insert("channel-1".into(), Chan { open: true, next_seq: 10 });
    w.lenient_bank = c.lenient_bank;
    w.sub_second = c.sub_second;
    let mut ev = Eval::default();
    let mut viol: Vec<Violation> = vec![];
    // principals: 0 = current admin (dynamic), 1 = current trader (dynamic), 2.. fixed accounts
    let fixed: Vec<String> = (0..6).map(|i| addr20("osmo", &format!("tp{}", i))).collect();
    let deployer = fixed[0].clone();
    let init_admin = if c.admin_explicit { fixed[1].clone() } else { deployer.clone() };
    let init_trader = if c.trader_explicit { fixed[2].clone() } else { deployer.clone() };
    let imsg = json!({"admin": if c.admin_explicit { Some(init_admin.clone()) } else { None }, "trader": if c.trader_explicit { Some(init_trader.clone()) } else { None }, "allowed_swap_routes": routes_json(&c.routes)});
    let r = w.tx_instantiate(Which::Treasury, &deployer, &imsg.to_string());
    if !r.ok {
        viol.push(Violation { stop: true, prop: "HARNESS", clause: "boot", step: 0, msg: format!("treasury instantiate failed: {}", r.err) });
    }
    let mut m = TModel { admin: init_admin, nominee: None, trader: init_trader, routes: c.routes.clone(), former: vec![] };
    let receivers: Vec<String> = vec![
        addr20("osmo", "rcv0"),
        addr20("celestia", "rcv1"),
        addr20("cosmos", "rcv2"),
        addr32("osmo", "rcv3"),
        {
            let mut s = addr20("osmo", "rcv4");
            let l = s.pop().unwrap();
            s.push(if l == 'q' { 'p' } else { 'q' });
            s
        },
        {
            let mut s = addr20("celestia", "rcv5");
            let l = s.pop().unwrap();
            s.push(if l == 'q' { 'p' } else { 'q' });
            s
        },
        String::new(),
        "osmo1".into(),
        // checksum-valid addresses whose prefix merely extends the required one
        addr20("osmovaloper", "rcv8"),
        addr20("osmosis", "rcv9"),
        addr20("celestiavaloper", "rcv10"),
        addr20("celestiax", "rcv11"),
        addr20("osm", "rcv12"),
        addr20("celesti", "rcv13"),
    ];
    let who_addr = |m: &TModel, who: u8| -> String {
        match who {
            0 => m.admin.clone(),
            1 => m.trader.clone(),
            2 => m.nominee.as_ref().map(|n| n.0.clone()).unwrap_or_else(|| fixed[3].clone()),
            3 => m.former.last().cloned().unwrap_or_else(|| fixed[4].clone()),
            k => fixed[k as usize % fixed.len()].clone(),
        }
    };
    let mut hash = Fnv::default();
    let mut seen_panics = 0usize;
    let mut swaps_ok = 0u64;
    for (i, op) in c.ops.iter().enumerate() {
        let step = i + 1;
        if !viol.is_empty() {
            break;
        }
        ev.stats.ops += 1;
        let mut v = |prop: &'static str, clause: &'static str, msg: String| viol.push(Violation { prop, clause, step, msg, stop: true });
        match op {
            TOp::Advance(s) => w.advance((*s).max(1)),
            TOp::ToMinTime(d) => {
                let now = w.now_s();
                if let Some((_, t0)) = &m.nominee {
                    let tt = (*t0 as i64 + d).max(0) as u64;
                    if tt > now {
                        w.advance(tt - now);
                        ev.stats.fault("F13_deadline_landing");
                    } else {
                        w.advance(1);
                    }
                } else {
                    w.advance(1);
                }
            }
            TOp::Swap { who, exact_in, route, denom, amount, limit } => {
                let sender = who_addr(&m, *who);
                let rj = json!(route.iter().map(|h| json!({"pool_id": h.pool, "token_in_denom": hin(h), "token_out_denom": hout(h)})).collect::<Vec<_>>());
                let coin = json!({"denom": dn(*denom), "amount": amount.to_string()});
                let msg = if *exact_in { json!({"swap_exact_amount_in": {"routes": rj, "token_in": coin, "token_out_min_amount": limit.to_string()}}) } else { json!({"swap_exact_amount_out": {"routes": rj, "token_out": coin, "token_in_max_amount": limit.to_string()}}) };
                // serde_json prints u128 above u64 only with arbitrary precision: build the limit by hand
                let msg_s = msg.to_string();
                let res = w.tx_execute(&t, &sender, &[], &msg_s);
                ev.stats.txs += 1;
                let is_trader = sender == m.trader;
                let listed = !route.is_empty() && m.routes.iter().any(|r| r == route);
                // equality on denoms by value (two denom indices may name the same string only if equal mod len)
                let listed_by_value = !route.is_empty() && m.routes.iter().any(|r| r.len() == route.len() && r.iter().zip(route.iter()).all(|(a, b)| a.pool == b.pool && hin(a) == hin(b) && hout(a) == hout(b)));
                let _ = listed;
                let endpoint = !route.is_empty() && if *exact_in { hin(&route[0]) == dn(*denom) } else { hout(&route[route.len() - 1]) == dn(*denom) };
                let pred = is_trader && listed_by_value && endpoint;
                if res.ok {
                    ev.stats.tx_ok += 1;
                    if !is_trader {
                        v("C13", "swap_trader_only", format!("swap by {} (trader is {}) executed", sender, m.trader));
                    } else if !listed_by_value {
                        v("C13", "swap_route_allow_listed", format!("route {:?} not in allow-list {:?} executed", route, m.routes));
                    } else if !endpoint {
                        v("C13", "swap_endpoint_denom", format!("coin denom {:?} does not match the route end point {:?}", dn(*denom), route));
                    }
                    let swaps: Vec<&Effect> = res.effects.iter().filter(|e| matches!(e, Effect::Swap { .. })).collect();
                    let others = res.effects.iter().any(|e| !matches!(e, Effect::Swap { .. } | Effect::Exec { .. }));
                    let want_routes: Vec<(u64, String)> = route.iter().map(|h| (h.pool, if *exact_in { hout(h).to_string() } else { hin(h).to_string() })).collect();
                    let good = match swaps.as_slice() {
                        [Effect::Swap { sender: s, exact_in: ei, routes, coin, limit: l }] => *s == t && *ei == *exact_in && *routes == want_routes && coin.0 == dn(*denom) && coin.1 == *amount && *l == limit.to_string(),
                        _ => false,
                    };
                    if !good || others {
                        v("C13", "swap_message_faithful", format!("request route={:?} coin={}{} limit={} exact_in={} but emitted {:?}", route, amount, dn(*denom), limit, exact_in, res.effects));
                    }
                    swaps_ok += 1;
                    if route.len() > 1 {
                        ev.stats.probe("multi_hop_swap_executed");
                    }
                } else if pred && !res.panicked {
                    v("C13", "trader_on_allowed_route_succeeds", format!("trader's swap on allow-listed route {:?} refused: {}", route, res.err));
                } else if is_trader && !listed_by_value && !route.is_empty() {
                    ev.stats.probe("near_miss_route_refused");
                }
            }
            TOp::Spend { who, denom, amount, receiver, channel } => {
                let sender = who_addr(&m, *who);
                let rcv = receivers[*receiver as usize % receivers.len()].clone();
                let d = if dn(*denom).is_empty() { "uosmo" } else { dn(*denom) };
                w.st.bank.mint(&t, d, *amount);
                let ch = channel.map(|c| if c >= 3 { String::new() } else { format!("channel-{}", c) });
                let msg = json!({"spend_funds": {"amount": {"denom": d, "amount": amount.to_string()}, "receiver": rcv, "channel_id": ch}});
                let res = w.tx_execute(&t, &sender, &[], &msg.to_string());
                ev.stats.txs += 1;
                let auth = sender == m.admin;
                let want_prefix = if ch.is_some() { "celestia" } else { "osmo" };
                let valid = b32_decode(&rcv).map(|x| x.0 == want_prefix).unwrap_or(false);
                if res.ok {
                    ev.stats.tx_ok += 1;
                    if !auth {
                        v("C13", "spend_admin_only", format!("SpendFunds by {} (admin is {}) executed", sender, m.admin));
                    } else if !valid {
                        v("C13", "spend_prefix_rules", format!("SpendFunds to {:?} over {:?} executed", rcv, ch));
                    }
                    let exact = match &ch {
                        None => {
                            let sends: Vec<&Effect> = res.effects.iter().filter(|e| !matches!(e, Effect::Exec { .. })).collect();
                            matches!(sends.as_slice(), [Effect::BankSend { from, to, denom: dd, amount: a }] if *from == t && *to == rcv && dd == d && *a == *amount)
                        }
                        Some(chn) => {
                            let sends: Vec<&Effect> = res.effects.iter().filter(|e| !matches!(e, Effect::Exec { .. } | Effect::ReplyCalled { .. })).collect();
                            match sends.as_slice() {
                                [Effect::IbcSend { pkt }] => {
                                    let p = &w.st.packets[*pkt];
                                    p.sender == t && p.receiver == rcv && p.denom == d && p.amount == *amount && p.channel == *chn
                                }
                                _ => false,
                            }
                        }
                    };
                    if !exact {
                        v("C13", "spend_exact_coin_and_receiver", format!("SpendFunds {}{} to {} over {:?} emitted {:?}", amount, d, rcv, ch, res.effects));
                    }
                }
            }
            TOp::UpdateConfig { who, trader, routes } => {
                let sender = who_addr(&m, *who);
                let tr = trader.map(|k| if k == 6 { "not-an-address".to_string() } else { fixed[k as usize % fixed.len()].clone() });
                let msg = json!({"update_config": {"trader": tr, "allowed_swap_routes": routes.as_ref().map(|r| routes_json(r))}});
                let res = w.tx_execute(&t, &sender, &[], &msg.to_string());
                ev.stats.txs += 1;
                if res.ok {
                    ev.stats.tx_ok += 1;
                    if sender != m.admin {
                        v("C13", "update_config_admin_only", format!("UpdateConfig by {} (admin {}) succeeded", sender, m.admin));
                    }
                    if let Some(tr) = tr {
                        m.trader = tr;
                    }
                    if let Some(r) = routes {
                        m.routes = r.clone();
                    }
                    ev.stats.fault("F16_config_change_mid_history");
                }
            }
            TOp::Transfer { who, cand } => {
                let sender = who_addr(&m, *who);
                let cnd = if *cand >= 6 { m.admin.clone() } else { fixed[2 + *cand as usize % 4].clone() };
                let res = w.tx_execute(&t, &sender, &[], &json!({"transfer_ownership": {"new_owner": cnd}}).to_string());
                ev.stats.txs += 1;
                if res.ok {
                    ev.stats.tx_ok += 1;
                    if sender != m.admin {
                        v("C12", "nominate_admin_only", format!("treasury TransferOwnership by {} succeeded", sender));
                    }
                    if m.nominee.is_some() {
                        ev.stats.probe("renomination_restarts_clock");
                    }
                    m.nominee = Some((cnd, w.now_s() + WEEK));
                }
            }
            TOp::Revoke { who } => {
                let sender = who_addr(&m, *who);
                let res = w.tx_execute(&t, &sender, &[], &json!({"revoke_ownership_transfer": {}}).to_string());
                ev.stats.txs += 1;
                if res.ok {
                    ev.stats.tx_ok += 1;
                    if sender != m.admin {
                        v("C12", "revoke_admin_only", format!("treasury RevokeOwnershipTransfer by {} succeeded", sender));
                    }
                    m.nominee = None;
                }
            }
            TOp::Accept { who } => {
                let sender = who_addr(&m, *who);
                let now = w.now_s();
                let pred = m.nominee.as_ref().map(|(n, t0)| *n == sender && now >= *t0).unwrap_or(false);
                if let Some((n, t0)) = &m.nominee {
                    if *n == sender && now == *t0 {
                        ev.stats.probe("accept_exactly_at_min_time");
                    }
                    if *n == sender && now + 1 == *t0 {
                        ev.stats.probe("accept_one_second_early");
                    }
                }
                let res = w.tx_execute(&t, &sender, &[], &json!({"accept_ownership": {}}).to_string());
                ev.stats.txs += 1;
                if res.ok != pred {
                    if res.ok {
                        v("C12", "accept_only_nominee_after_7d", format!("treasury AcceptOwnership by {} at {} with nomination {:?} succeeded", sender, now, m.nominee));
                    } else if !res.panicked {
                        v("C12", "nominee_can_accept_after_7d", format!("treasury AcceptOwnership by the nominee at {} (nomination {:?}) refused: {}", now, m.nominee, res.err));
                    }
                }
                if res.ok {
                    ev.stats.tx_ok += 1;
                    let old = m.admin.clone();
                    m.former.push(old.clone());
                    m.admin = sender.clone();
                    m.nominee = None;
                    let probe = json!({"update_config": {"trader": Value::Null, "allowed_swap_routes": Value::Null}}).to_string();
                    if old != sender {
                        let r = w.tx_execute(&t, &old, &[], &probe);
                        if r.ok {
                            v("C12", "former_admin_loses_rights", format!("former treasury admin {} still passes an admin-only message", old));
                        }
                    }
                    let r = w.tx_execute(&t, &sender, &[], &probe);
                    if !r.ok {
                        v("C12", "new_admin_has_rights", format!("new treasury admin refused: {}", r.err));
                    } else if !pred {
                        // the admin-only operations now work for an account the admin never handed the treasury to
                        v("C13", "update_config_admin_only", format!("UpdateConfig by {} succeeded: it became admin through an AcceptOwnership that had to be refused (admin {}, nomination {:?})", sender, old, m.nominee));
                    }
                    let r = w.tx_execute(&t, &sender, &[], &json!({"accept_ownership": {}}).to_string());
                    if r.ok {
                        v("C12", "acceptance_consumes_nomination", "second treasury AcceptOwnership succeeded".into());
                    }
                }
            }
            TOp::Query => {}
            TOp::Migrate { stored_name, stored_version } => {
                // version gate of the treasury contract (C18) on the live store
                let names = ["treasury", "staking", "crates.io:treasury"];
                let versions = ["0.4.19", "0.4.20", "0.4.21", "0.1.0", "garbage", "1.0.0"];
                let name = names[*stored_name as usize % names.len()];
                let ver = versions[*stored_version as usize % versions.len()];
                let saved = w.st.treasury.map.get(&b"contract_info".to_vec()).cloned();
                w.st.treasury.map.insert(b"contract_info".to_vec(), serde_json::to_vec(&json!({"contract": name, "version": ver})).unwrap());
                let before = w.st.treasury.map.clone();
                let res = w.tx_migrate(Which::Treasury, "{}");
                ev.stats.txs += 1;
                let code_ver: String = saved.as_ref().and_then(|b| serde_json::from_slice::<Value>(b).ok()).and_then(|v| v["version"].as_str().map(|s| s.to_string())).unwrap_or_default();
                let ct: Vec<u64> = code_ver.split('.').filter_map(|x| x.parse().ok()).collect();
                let older = ct.len() == 3 && crate::migr::semver_lt(ver, (ct[0], ct[1], ct[2])) == Some(true);
                let should = name == "treasury" && older;
                if res.ok != should && !res.panicked {
                    v("C18", "treasury_version_gate", format!("treasury migrate from ({}, {}) returned ok={} ({})", name, ver, res.ok, res.err));
                }
                if !res.ok && w.st.treasury.map != before {
                    v("C18", "refused_migration_changes_nothing", "refused treasury migration changed storage".into());
                }
                if let Some(s) = saved {
                    w.st.treasury.map.insert(b"contract_info".to_vec(), s);
                }
            }
        }
        // panics (C16)
        while seen_panics < w.panics.len() {
            let p = &w.panics[seen_panics];
            seen_panics += 1;
            viol.push(Violation { stop: true, prop: "C16", clause: "panic", step, msg: format!("{}::{} panicked: {} | input: {}", p.contract, p.entry, p.msg, p.input) });
        }
        // Config query equals the model (C12 admin, C13 trader/routes)
        match w.query(Which::Treasury, "{\"config\":{}}") {
            Ok(b) => {
                let cfg: Value = serde_json::from_slice(&b).unwrap_or(Value::Null);
                if cfg["admin"].as_str() != Some(m.admin.as_str()) {
                    viol.push(Violation { stop: true, prop: "C12", clause: "admin_changes_only_by_handover", step, msg: format!("treasury Config.admin is {} but the model has {}", cfg["admin"], m.admin) });
                }
                if cfg["trader"].as_str() != Some(m.trader.as_str()) || cfg["allowed_swap_routes"] != routes_json(&m.routes) {
                    viol.push(Violation { stop: true, prop: "C13", clause: "config_follows_admin_updates", step, msg: format!("treasury config {} differs from model trader {} routes {:?}", cfg, m.trader, m.routes) });
                }
            }
            Err(e) => viol.push(Violation { stop: true, prop: "C16", clause: "queries_fail", step, msg: format!("treasury Config query failed: {}", e) }),
        }
        while seen_panics < w.panics.len() {
            let p = &w.panics[seen_panics];
            seen_panics += 1;
            viol.push(Violation { stop: true, prop: "C16", clause: "panic", step, msg: format!("{}::{} panicked: {} | input: {}", p.contract, p.entry, p.msg, p.input) });
        }
        hash.str(&format!("{:?}", std::mem::discriminant(op)));
        hash.u64(w.st.tx_no);
        hash.str(&m.admin);
        hash.str(&m.trader);
    }
    ev.viol = viol;
    ev.hash = hash.0;
    ev.nontrivial = ev.stats.tx_ok >= 2;
    ev.faulted = ev.stats.faults.values().sum::<u64>() > 0;
    if swaps_ok > 0 {
        ev.stats.probe("swap_executed");
    }
    ev
}
