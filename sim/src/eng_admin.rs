//! Admin-type operations (also used for intruders), circuit breaker, queries, mid-run migration,
//! hostile inputs.

use crate::engine::*;
use crate::ops::*;
use crate::util::*;
use crate::world::*;
use serde_json::{json, Value};
use std::collections::BTreeMap;

type Raw = BTreeMap<Vec<u8>, Vec<u8>>;

fn changed_keys(a: &Raw, b: &Raw) -> Vec<Vec<u8>> {
    let mut out = vec![];
    for (k, v) in a {
        if b.get(k) != Some(v) {
            out.push(k.clone());
        }
    }
    for k in b.keys() {
        if !a.contains_key(k) {
            out.push(k.clone());
        }
    }
    out
}

fn json_of(raw: &Raw, key: &[u8]) -> Value {
    raw.get(key).and_then(|v| serde_json::from_slice(v).ok()).unwrap_or(Value::Null)
}

/// top-level object fields that differ
fn diff_fields(a: &Value, b: &Value) -> Vec<String> {
    let mut out = vec![];
    if let (Some(x), Some(y)) = (a.as_object(), b.as_object()) {
        for (k, v) in x {
            if y.get(k) != Some(v) {
                out.push(k.clone());
            }
        }
        for k in y.keys() {
            if !x.contains_key(k) {
                out.push(k.clone());
            }
        }
    } else if a != b {
        out.push("<whole>".into());
    }
    out
}

pub fn ns_key(ns: &str) -> Vec<u8> {
    let mut k = vec![(ns.len() >> 8) as u8, ns.len() as u8];
    k.extend(ns.as_bytes());
    k
}

impl Engine {
    fn run_admin(&mut self, sender: &str, msg: &Value, origin: Origin) -> TxResult {
        self.w.cur_origin = origin;
        let s = self.s_addr();
        let r = self.w.tx_execute(&s, sender, &[], &msg.to_string());
        self.w.cur_origin = Origin::Other;
        self.stats.txs += 1;
        if r.ok {
            self.stats.tx_ok += 1;
        }
        self.note_panics();
        self.last_tx = Some(r.clone());
        r
    }

    /// An unauthorised principal sent an admin-type message: it must be refused and change nothing.
    fn expect_refused(&mut self, res: &TxResult, pre: &Raw, what: &str, sender: &str, extra: Option<(&'static str, &'static str)>) {
        if res.ok {
            self.v("C08", "unauthorized_refused", format!("{} by non-authorised {} succeeded", what, sender));
            if let Some((p, c)) = extra {
                self.v(p, c, format!("{} by non-authorised {} succeeded", what, sender));
            }
        } else if self.w.st.staking.map != *pre {
            self.v("C08", "unauthorized_changes_nothing", format!("{} by {} was refused but storage changed", what, sender));
        }
    }

    pub fn admin_op(&mut self, sender: String, op: &AdminOp) {
        let is_admin = sender == self.m.admin;
        let pre = self.w.st.staking.map.clone();
        match op {
            AdminOp::Breaker => self.op_breaker(sender),
            AdminOp::Resume { n, l, r } => self.op_resume(sender, *n, *l, *r),
            AdminOp::ResumeSame => {
                let (n, l, r) = (self.m.n, self.m.l, self.m.rewards);
                self.op_resume(sender, n, l, r)
            }
            AdminOp::ResumeRewardOnly { r } => {
                let (n, l) = (self.m.n, self.m.l);
                self.op_resume(sender, n, l, *r)
            }
            AdminOp::UpdateConfig(secs) => self.op_update_config(sender, secs),
            AdminOp::FeeWithdraw { amount } => self.op_fee_withdraw(sender, *amount),
            AdminOp::FeeWithdrawPct { pct } => {
                let a = mul_div(self.m.fees, (*pct).min(100) as u128, 100).unwrap_or(0);
                self.op_fee_withdraw(sender, a)
            }
            AdminOp::AddValidator(i) => {
                let val = self.a.vals[*i as usize % self.a.vals.len()].clone();
                let msg = json!({"add_validator": {"new_validator": val}});
                let res = self.run_admin(&sender, &msg, Origin::Other);
                if !is_admin {
                    return self.expect_refused(&res, &pre, "AddValidator", &sender, None);
                }
                let present = self.m.cfg.validators.contains(&val);
                if res.ok && present {
                    self.v("C14", "validator_add_rejects_duplicate", format!("validator {} added twice", val));
                }
                if res.ok {
                    self.m.cfg.validators.push(val);
                    self.check_config_against_model(&pre, &["native_chain_config"], "validator_edit_exact");
                }
            }
            AdminOp::RemoveValidator(i) => {
                let val = self.a.vals[*i as usize % self.a.vals.len()].clone();
                let msg = json!({"remove_validator": {"validator": val}});
                let res = self.run_admin(&sender, &msg, Origin::Other);
                if !is_admin {
                    return self.expect_refused(&res, &pre, "RemoveValidator", &sender, None);
                }
                let present = self.m.cfg.validators.contains(&val);
                if res.ok && !present {
                    self.v("C14", "validator_remove_rejects_unknown", format!("unknown validator {} removed", val));
                }
                if res.ok {
                    if let Some(p) = self.m.cfg.validators.iter().position(|v| *v == val) {
                        self.m.cfg.validators.remove(p);
                    }
                    self.check_config_against_model(&pre, &["native_chain_config"], "validator_edit_exact");
                }
            }
            AdminOp::Transfer(i) => {
                let cand = self.a.cands[*i as usize % self.a.cands.len()].clone();
                let msg = json!({"transfer_ownership": {"new_owner": cand}});
                let res = self.run_admin(&sender, &msg, Origin::Other);
                if !is_admin {
                    return self.expect_refused(&res, &pre, "TransferOwnership", &sender, Some(("C12", "nominate_admin_only")));
                }
                if res.ok {
                    if self.m.nominee.is_some() {
                        self.stats.probe("renomination_restarts_clock");
                    }
                    self.m.nominee = Some((cand.clone(), self.w.now_s() + WEEK));
                    let po = self.q(json!({"state": {}})).map(|v| v["pending_owner"].as_str().unwrap_or("").to_string());
                    if po.as_deref() != Some(cand.as_str()) {
                        // observational: the model keeps the nominee the admin named
                        self.vo("C12", "nomination_recorded", format!("pending owner is {:?} after nominating {}", po, cand));
                    }
                }
            }
            AdminOp::Revoke => {
                let msg = json!({"revoke_ownership_transfer": {}});
                let res = self.run_admin(&sender, &msg, Origin::Other);
                if !is_admin {
                    return self.expect_refused(&res, &pre, "RevokeOwnershipTransfer", &sender, Some(("C12", "revoke_admin_only")));
                }
                if res.ok {
                    self.m.nominee = None;
                } else if !res.env_fault && !res.panicked {
                    // revocation cancels a nomination at any time, also after the lock has elapsed
                    if let Some((_, t)) = &self.m.nominee {
                        if self.w.now_s() >= *t {
                            self.stats.probe("revoke_after_lock_elapsed");
                        }
                    }
                    self.v("C12", "admin_can_revoke", format!("RevokeOwnershipTransfer by the admin refused (nomination {:?}): {}", self.m.nominee, res.err));
                }
            }
            AdminOp::Accept => self.op_accept(sender),
            AdminOp::ForcedRecover { ids, receiver, honest } => self.op_forced_recover(sender, ids, *receiver, *honest),
        }
    }

    fn op_accept(&mut self, sender: String) {
        let now = self.w.now_s();
        let pred = match &self.m.nominee {
            Some((n, t)) => *n == sender && now >= *t,
            None => false,
        };
        if let Some((n, t)) = &self.m.nominee {
            if *n == sender && now == *t {
                self.stats.probe("accept_exactly_at_min_time");
            }
            if *n == sender && now + 1 == *t {
                self.stats.probe("accept_one_second_early");
            }
        } else {
            self.stats.probe("accept_without_nomination");
        }
        let res = self.run_admin(&sender, &json!({"accept_ownership": {}}), Origin::Other);
        if res.ok != pred {
            if res.ok {
                self.v("C12", "accept_only_nominee_after_7d", format!("AcceptOwnership by {} succeeded at {} with nomination {:?}", sender, now, self.m.nominee));
                if self.m.nominee.as_ref().map(|n| n.0 != sender).unwrap_or(true) {
                    self.v("C08", "accept_nominee_only", format!("AcceptOwnership by {} succeeded with nomination {:?}", sender, self.m.nominee));
                }
            } else if !res.env_fault && !res.panicked {
                self.v("C12", "nominee_can_accept_after_7d", format!("AcceptOwnership by the nominee at {} (min time {:?}) refused: {}", now, self.m.nominee, res.err));
            }
        }
        if !res.ok {
            return;
        }
        let old = self.m.admin.clone();
        self.m.former_admins.push(old.clone());
        self.m.admin = sender.clone();
        self.m.nominee = None;
        // acceptance consumed the nomination: nothing is pending any more and a second acceptance fails
        // (checked before the admin-only probes, which themselves clear a pending nomination)
        let po = self.q(json!({"state": {}})).map(|v| v["pending_owner"].as_str().unwrap_or("").to_string());
        if po.as_deref() != Some("") {
            self.vo("C12", "acceptance_consumes_nomination", format!("pending owner is {:?} after the acceptance", po));
        }
        let r = self.run_admin(&sender, &json!({"accept_ownership": {}}), Origin::Other);
        if r.ok {
            // the admin is the same account either way, so the model stays valid
            self.vo("C12", "acceptance_consumes_nomination", "second AcceptOwnership succeeded".into());
        }
        // admin-only probe: the former admin has lost its rights, the new one has them
        // (the probe is an UpdateConfig that supplies no section: admin-only, and it changes nothing - a
        // RevokeOwnershipTransfer probe would itself rewrite the handover state under test)
        let probe = json!({"update_config": {"native_chain_config": Value::Null, "protocol_chain_config": Value::Null, "protocol_fee_config": Value::Null, "monitors": Value::Null, "batch_period": Value::Null}});
        if old != sender {
            let r = self.run_admin(&old, &probe, Origin::Other);
            if r.ok {
                self.v("C12", "former_admin_loses_rights", format!("former admin {} still passes an admin-only message", old));
            }
        }
        let r = self.run_admin(&sender, &probe, Origin::Other);
        if !r.ok && !r.env_fault {
            self.v("C12", "new_admin_has_rights", format!("new admin {} is refused an admin-only message: {}", sender, r.err));
        }
        self.last_tx = Some(res);
    }

    pub fn op_breaker(&mut self, sender: String) {
        let authorised = sender == self.m.admin || self.m.cfg.monitors.contains(&sender);
        let pre = self.w.st.staking.map.clone();
        let res = self.run_admin(&sender, &json!({"circuit_breaker": {}}), Origin::Other);
        if !authorised {
            return self.expect_refused(&res, &pre, "CircuitBreaker", &sender, None);
        }
        if !res.ok {
            if !res.env_fault && !res.panicked {
                self.v("C10", "admin_or_monitor_can_halt", format!("CircuitBreaker by {} refused: {}", sender, res.err));
            }
            return;
        }
        self.stats.fault("F15_circuit_breaker");
        if sender != self.m.admin {
            self.stats.probe("halt_by_monitor");
        }
        let post = self.w.st.staking.map.clone();
        let ck = changed_keys(&pre, &post);
        let cfg_a = json_of(&pre, b"config");
        let cfg_b = json_of(&post, b"config");
        let fields = diff_fields(&cfg_a, &cfg_b);
        if ck.iter().any(|k| k != b"config") || fields.iter().any(|f| f != "stopped") {
            self.v("C10", "halt_changes_only_flag", format!("CircuitBreaker changed keys {:?} config fields {:?}", ck.iter().map(|k| String::from_utf8_lossy(k).to_string()).collect::<Vec<_>>(), fields));
        }
        if !res.effects.iter().all(|e| matches!(e, Effect::Exec { .. })) {
            self.v("C10", "halt_changes_only_flag", "CircuitBreaker emitted messages".into());
        }
        self.m.halted = true;
    }

    fn op_resume(&mut self, sender: String, n: u128, l: u128, r: u128) {
        let is_admin = sender == self.m.admin;
        let pre = self.w.st.staking.map.clone();
        // domain: resulting rate must be inside the supported range
        let save = (self.m.n, self.m.l);
        self.m.n = n;
        self.m.l = l;
        let dom = {
            let amounts = [n, l, r];
            amounts.iter().all(|a| *a <= 100 * 1_000_000_000_000_000_000_000_000_000u128) && (l == 0 || (n > 0 && cmp_prod(n, 1000, l, 1) != std::cmp::Ordering::Less && cmp_prod(n, 1, l, 1000) != std::cmp::Ordering::Greater))
        };
        self.m.n = save.0;
        self.m.l = save.1;
        self.in_domain = dom;
        let msg = json!({"resume_contract": {"total_native_token": n.to_string(), "total_liquid_stake_token": l.to_string(), "total_reward_amount": r.to_string()}});
        let res = self.run_admin(&sender, &msg, Origin::Other);
        if !is_admin {
            return self.expect_refused(&res, &pre, "ResumeContract", &sender, Some(("C10", "resume_admin_only")));
        }
        if !res.ok {
            if !res.env_fault && !res.panicked && dom {
                self.v("C10", "admin_can_resume", format!("ResumeContract by the admin refused: {}", res.err));
            }
            return;
        }
        let post = self.w.st.staking.map.clone();
        let ck = changed_keys(&pre, &post);
        let cfg_fields = diff_fields(&json_of(&pre, b"config"), &json_of(&post, b"config"));
        let st_b = json_of(&post, b"state");
        let st_fields = diff_fields(&json_of(&pre, b"state"), &st_b);
        let allowed = ["total_native_token", "total_liquid_stake_token", "total_reward_amount"];
        if ck.iter().any(|k| k != b"config" && k != b"state") || cfg_fields.iter().any(|f| f != "stopped") || st_fields.iter().any(|f| !allowed.contains(&f.as_str())) {
            self.v("C10", "resume_changes_only_flag_and_totals", format!("ResumeContract changed keys {:?}, config fields {:?}, state fields {:?}", ck.iter().map(|k| String::from_utf8_lossy(k).to_string()).collect::<Vec<_>>(), cfg_fields, st_fields));
        }
        if u(&st_b["total_native_token"]) != n || u(&st_b["total_liquid_stake_token"]) != l || u(&st_b["total_reward_amount"]) != r || json_of(&post, b"config")["stopped"] != Value::Bool(false) {
            self.v("C10", "resume_sets_exact_totals", format!("after ResumeContract({}, {}, {}) state is {}", n, l, r, st_b));
        }
        if self.m.halted {
            self.stats.probe("resume_after_halt");
        }
        self.m.adj_n += n as i128 - self.m.n as i128;
        self.m.adj_l += l as i128 - self.m.l as i128;
        self.m.n = n;
        self.m.l = l;
        self.m.rewards = r;
        self.m.halted = false;
        self.m.ownerless_from_resume = l == 0 && n > 0;
        self.totals_prop = "C10";
    }

    fn quiescent(&self) -> bool {
        let s = self.s_addr();
        let open = self.w.st.packets.iter().any(|p| p.sender == s && p.state != PState::AckedOk && !self.m.recovered.contains(&p.id));
        let inbound = self.w.st.inpackets.iter().any(|p| p.state == InState::InFlight);
        let submitted = self.m.batches.values().any(|b| b.status == 1);
        !open && !inbound && !submitted && self.m.lost_cb.is_empty()
    }

    fn op_update_config(&mut self, sender: String, secs: &[CfgSection]) {
        let is_admin = sender == self.m.admin;
        let pre = self.w.st.staking.map.clone();
        let mut c = self.m.cfg.clone();
        let quiet = self.quiescent();
        let (mut s_native, mut s_proto, mut s_fee, mut s_mon, mut s_bp) = (false, false, false, false, false);
        let mut upper_prefix = false;
        for sct in secs {
            match sct {
                CfgSection::Fee { rate, treasury } => {
                    c.fee_rate = *rate;
                    c.treasury = if *treasury { Some(self.w.setup.treasury_addr.clone()) } else { None };
                    s_fee = true;
                }
                CfgSection::BatchPeriod(p) => {
                    c.batch_period = *p;
                    s_bp = true;
                }
                CfgSection::Monitors(ms) => {
                    let mut v: Vec<String> = vec![];
                    for i in ms {
                        let a = self.a.mons[*i as usize % self.a.mons.len()].clone();
                        if !v.contains(&a) {
                            v.push(a);
                        }
                    }
                    c.monitors = v;
                    s_mon = true;
                }
                CfgSection::Native { unbonding, validators, staker, collector, upper } => {
                    c.unbonding = *unbonding;
                    let mut v: Vec<String> = vec![];
                    for i in validators {
                        let a = self.a.vals[*i as usize % self.a.vals.len()].clone();
                        if !v.contains(&a) {
                            v.push(a);
                        }
                    }
                    c.validators = v;
                    if quiet {
                        c.staker = self.a.nstakers[*staker as usize % self.a.nstakers.len()].clone();
                        c.collector = self.a.ncollectors[*collector as usize % self.a.ncollectors.len()].clone();
                        if *upper && !self.sw.honest {
                            // legal upper-case spelling; the native ledger treats it as the configured account
                            c.staker = c.staker.to_uppercase();
                            c.collector = c.collector.to_uppercase();
                        }
                    }
                    s_native = true;
                }
                CfgSection::Protocol { min_stake, oracle, channel, spell } => {
                    c.min_stake = *min_stake;
                    c.oracle = if *oracle && !self.force_no_oracle { Some(self.w.setup.oracle_addr.clone()) } else { None };
                    upper_prefix = *spell >= 8;
                    if *spell % 8 >= 4 {
                        // the legal all-upper-case spelling of the same oracle account
                        c.oracle = c.oracle.map(|o| o.to_uppercase());
                        self.stats.probe("oracle_configured_in_upper_case");
                    }
                    if quiet {
                        c.channel = match spell % 4 {
                            2 => format!("channel-00{}", channel),
                            3 => format!("channel-+{}", channel),
                            _ => format!("channel-{}", channel),
                        };
                    }
                    s_proto = true;
                }
            }
        }
        let msg = json!({"update_config": {
            "native_chain_config": if s_native { self.native_cfg_json(&c) } else { Value::Null },
            "protocol_chain_config": if s_proto {
                let mut j = self.protocol_cfg_json(&c);
                if upper_prefix && c.oracle.is_none() {
                    // the all-upper-case spelling of the prefix is legal and is stored in lower case; it can only be
                    // used when the section carries no address (addresses are compared with the prefix as typed)
                    j["account_address_prefix"] = json!(self.w.setup.proto_prefix.to_uppercase());
                    self.stats.probe("protocol_prefix_typed_in_upper_case");
                }
                j
            } else {
                Value::Null
            },
            "protocol_fee_config": if s_fee { self.fee_cfg_json(&c) } else { Value::Null },
            "monitors": if s_mon { json!(c.monitors) } else { Value::Null },
            "batch_period": if s_bp { json!(c.batch_period) } else { Value::Null },
        }});
        let res = self.run_admin(&sender, &msg, Origin::Other);
        if !is_admin {
            return self.expect_refused(&res, &pre, "UpdateConfig", &sender, None);
        }
        if !res.ok {
            return;
        }
        self.stats.fault("F16_config_change_mid_history");
        for m in &self.m.cfg.monitors {
            if !c.monitors.contains(m) && !self.m.removed_monitors.contains(m) {
                self.m.removed_monitors.push(m.clone());
            }
        }
        self.m.removed_monitors.retain(|m| !c.monitors.contains(m));
        if c.channel != self.m.cfg.channel {
            // the whole world moves to the new channel (see DESIGN §12.2)
            let next = self.w.st.channels.get(&self.m.cfg.channel).map(|x| x.next_seq).unwrap_or(1);
            self.w.st.channels.insert(c.channel.clone(), Chan { open: true, next_seq: next + 3 });
            self.w.setup.channel = c.channel.clone();
            self.stats.probe("channel_changed");
        }
        if c.staker != self.m.cfg.staker || c.collector != self.m.cfg.collector {
            self.stats.probe("staker_or_collector_changed");
        }
        self.m.cfg = c;
        let mut untouched: Vec<&str> = vec![];
        if !s_native {
            untouched.push("native_chain_config");
        }
        if !s_proto {
            untouched.push("protocol_chain_config");
        }
        if !s_fee {
            untouched.push("protocol_fee_config");
        }
        if !s_mon {
            untouched.push("monitors");
        }
        if !s_bp {
            untouched.push("batch_period");
        }
        let touched: Vec<&str> = ["native_chain_config", "protocol_chain_config", "protocol_fee_config", "monitors", "batch_period"].iter().filter(|x| !untouched.contains(x)).cloned().collect();
        self.check_config_against_model(&pre, &touched, "update_is_sectional");
    }

    /// After a configuration-changing operation: sections in `touched` equal the model, every other
    /// top-level field of the stored config record is byte-identical, nothing outside the config
    /// record changed.
    pub fn check_config_against_model(&mut self, pre: &Raw, touched: &[&str], clause: &'static str) {
        let post = self.w.st.staking.map.clone();
        let ck = changed_keys(pre, &post);
        if ck.iter().any(|k| k != b"config") {
            self.vo("C14", clause, format!("configuration operation changed other records: {:?}", ck.iter().map(|k| String::from_utf8_lossy(k).to_string()).collect::<Vec<_>>()));
        }
        let a = json_of(pre, b"config");
        let b = json_of(&post, b"config");
        for f in diff_fields(&a, &b) {
            if !touched.contains(&f.as_str()) {
                self.vo("C14", clause, format!("config field {} changed although its section was not supplied", f));
            }
        }
        let c = self.m.cfg.clone();
        let want = json!({
            "native_chain_config": self.native_cfg_json(&c),
            "protocol_chain_config": self.protocol_cfg_json(&c),
            "protocol_fee_config": self.fee_cfg_json(&c),
            "monitors": c.monitors,
            "batch_period": c.batch_period,
        });
        for f in touched {
            if b[*f] != want[*f] {
                self.vo("C14", clause, format!("config section {} is {} but {} was supplied", f, b[*f], want[*f]));
            }
        }
    }

    fn op_fee_withdraw(&mut self, sender: String, amount: u128) {
        let is_admin = sender == self.m.admin;
        let pre = self.w.st.staking.map.clone();
        let msg = json!({"fee_withdraw": {"amount": amount.to_string()}});
        let treasury = self.m.cfg.treasury.clone();
        let res = self.run_admin(&sender, &msg, Origin::Other);
        if !is_admin {
            return self.expect_refused(&res, &pre, "FeeWithdraw", &sender, None);
        }
        let allowed = amount <= self.m.fees && treasury.is_some();
        if amount == self.m.fees && amount > 0 {
            self.stats.probe("fee_withdraw_exactly_accrued");
        }
        if amount == self.m.fees + 1 {
            self.stats.probe("fee_withdraw_one_above_accrued");
        }
        if !res.ok {
            if allowed && !res.env_fault && !res.panicked && self.m.swept == 0 && !self.m.reckless {
                if res.err.contains("insufficient funds") {
                    self.v("C02", "fee_withdraw_paid_in_full", format!("FeeWithdraw({}) of accrued {} failed for lack of funds", amount, self.m.fees));
                } else {
                    self.v("C11", "fee_withdraw_up_to_accrued", format!("FeeWithdraw({}) with accrued {} refused: {}", amount, self.m.fees, res.err));
                }
            }
            return;
        }
        if !allowed {
            self.v("C11", "fee_withdraw_bounded", format!("FeeWithdraw({}) succeeded with accrued {} treasury {:?}", amount, self.m.fees, treasury));
        }
        let s = self.s_addr();
        let ibc = self.ibc();
        let to_t = treasury.as_ref().map(|t| res.sent(&s, t, &ibc)).unwrap_or(0);
        let total: u128 = res.effects.iter().map(|e| match e { Effect::BankSend { from, amount, .. } if *from == s => *amount, _ => 0 }).sum();
        if to_t != amount || total != amount {
            self.v("C11", "fee_withdraw_exact_to_treasury", format!("FeeWithdraw({}) sent {} to the treasury and {} in total", amount, to_t, total));
        }
        self.m.fees = self.m.fees.saturating_sub(amount);
    }

    // --------------------------------------------------------------------------------------------
    // queries (C17)
    // --------------------------------------------------------------------------------------------

    fn status_name(k: u8) -> &'static str {
        match k % 3 {
            0 => "Pending",
            1 => "Submitted",
            _ => "Received",
        }
    }

    fn model_batches_filtered(&self, after: Option<u64>, status: Option<u8>) -> Vec<u64> {
        self.m.batches.values().filter(|b| after.map(|a| b.id > a).unwrap_or(true)).filter(|b| status.map(|s| b.status == s % 3).unwrap_or(true)).map(|b| b.id).collect()
    }

    fn q_batches(&mut self, after: Option<u64>, limit: Option<u32>, status: Option<u8>) -> Option<Vec<(u64, String)>> {
        let r = self.q(json!({"batches": {"start_after": after, "limit": limit, "status": status.map(Self::status_name)}}))?;
        Some(r["batches"].as_array()?.iter().map(|b| (b["id"].as_u64().unwrap_or(0), b["status"].as_str().unwrap_or("").to_string())).collect())
    }

    pub fn op_query(&mut self, qo: &QueryOp) {
        match qo {
            QueryOp::Batches { start_after, limit, status } => {
                let limit = limit.map(|l| l.max(1));
                let mut want = self.model_batches_filtered(*start_after, *status);
                if let Some(l) = limit {
                    want.truncate(l as usize);
                }
                match self.q_batches(*start_after, limit, *status) {
                    Some(got) => {
                        let ids: Vec<u64> = got.iter().map(|g| g.0).collect();
                        if ids != want {
                            self.v("C17", "batches_page", format!("Batches(start_after={:?}, limit={:?}, status={:?}) = {:?} but expected {:?}", start_after, limit, status, ids, want));
                        }
                    }
                    None => self.v("C17", "batches_page", "Batches query failed".into()),
                }
                if start_after.is_some() && status.is_some() && limit.is_some() {
                    self.stats.probe("batches_query_cursor_filter_limit");
                }
            }
            QueryOp::Walk { limit, status } => {
                let limit = (*limit).max(1);
                let want = self.model_batches_filtered(None, *status);
                let mut got: Vec<u64> = vec![];
                let mut cursor: Option<u64> = None;
                for _ in 0..(want.len() + 3) {
                    match self.q_batches(cursor, Some(limit), *status) {
                        Some(page) => {
                            if page.is_empty() {
                                break;
                            }
                            cursor = page.last().map(|p| p.0);
                            let short = (page.len() as u32) < limit;
                            got.extend(page.iter().map(|p| p.0));
                            if short {
                                break;
                            }
                        }
                        None => {
                            self.v("C17", "batches_walk", "Batches query failed".into());
                            return;
                        }
                    }
                }
                if got != want {
                    self.v("C17", "batches_walk", format!("paging with limit {} status {:?} visited {:?} but matching batches are {:?}", limit, status, got, want));
                }
                if want.len() as u32 > limit {
                    self.stats.probe("multi_page_walk");
                }
            }
            QueryOp::ByIds(ids) => {
                let r = self.q(json!({"batches_by_ids": {"ids": ids}}));
                let got: Vec<u64> = match &r {
                    Some(v) => v["batches"].as_array().map(|a| a.iter().map(|b| b["id"].as_u64().unwrap_or(0)).collect()).unwrap_or_default(),
                    None => {
                        self.v("C17", "batches_by_ids", "BatchesByIds query failed".into());
                        return;
                    }
                };
                let mut want: Vec<u64> = ids.iter().filter(|i| self.m.batches.contains_key(i)).cloned().collect();
                want.sort();
                want.dedup();
                let mut g = got.clone();
                g.sort();
                g.dedup();
                if g != want {
                    self.v("C17", "batches_by_ids", format!("BatchesByIds({:?}) returned {:?}, existing requested are {:?}", ids, got, want));
                }
            }
            QueryOp::Queue { start_after, limit } => {
                let limit = limit.map(|l| l.max(1));
                let full: Vec<u64> = self.obs.as_ref().map(|o| o.queue.iter().map(|p| p.seq).collect()).unwrap_or_default();
                let mut want: Vec<u64> = full.into_iter().filter(|s| start_after.map(|a| *s > a).unwrap_or(true)).collect();
                if let Some(l) = limit {
                    want.truncate(l as usize);
                }
                let r = self.q(json!({"ibc_queue": {"start_after": start_after, "limit": limit}}));
                let got: Vec<u64> = r.as_ref().and_then(|v| v["ibc_queue"].as_array().map(|a| a.iter().map(|p| p["sequence"].as_u64().unwrap_or(0)).collect())).unwrap_or_else(|| vec![u64::MAX]);
                if got != want {
                    self.v("C17", "queue_page", format!("IbcQueue(start_after={:?}, limit={:?}) = {:?} expected {:?}", start_after, limit, got, want));
                }
            }
            QueryOp::QueueWalk { limit } => {
                let limit = (*limit).max(1);
                let want: Vec<u64> = self.obs.as_ref().map(|o| o.queue.iter().map(|p| p.seq).collect()).unwrap_or_default();
                let mut got: Vec<u64> = vec![];
                let mut cursor: Option<u64> = None;
                for _ in 0..(want.len() + 3) {
                    let r = self.q(json!({"ibc_queue": {"start_after": cursor, "limit": limit}}));
                    let page: Vec<u64> = r.as_ref().and_then(|v| v["ibc_queue"].as_array().map(|a| a.iter().map(|p| p["sequence"].as_u64().unwrap_or(0)).collect())).unwrap_or_default();
                    if page.is_empty() {
                        break;
                    }
                    cursor = page.last().cloned();
                    let short = (page.len() as u32) < limit;
                    got.extend(page);
                    if short {
                        break;
                    }
                }
                if got != want {
                    self.v("C17", "queue_walk", format!("paging the transfer queue with limit {} visited {:?} expected {:?}", limit, got, want));
                }
            }
            QueryOp::Requests(i) => {
                let addr = if *i >= 200 { self.a.cands[*i as usize % self.a.cands.len()].clone() } else { self.user_addr(*i) };
                self.check_requests_of(&addr, "C17", "unstake_requests_by_user");
                // secondary index has exactly one entry per primary record
                let pk = ns_key("unstake_requests");
                let ik = ns_key("unstake_requests_by_user");
                let prim = self.w.st.staking.map.keys().filter(|k| k.starts_with(&pk)).count();
                let idx = self.w.st.staking.map.keys().filter(|k| k.starts_with(&ik)).count();
                let model: usize = self.m.batches.values().map(|b| b.reqs.len()).sum();
                if prim != idx || prim != model {
                    self.v("C17", "index_consistent", format!("{} primary request records, {} index entries, {} open requests", prim, idx, model));
                }
            }
            QueryOp::Hostile(k) => {
                let msgs = [
                    json!({"batch": {"id": u64::MAX}}),
                    json!({"batch": {"id": 0}}),
                    json!({"batches": {"start_after": u64::MAX, "limit": u32::MAX, "status": "Received"}}),
                    json!({"batches": {"start_after": 0, "limit": 0}}),
                    json!({"batches_by_ids": {"ids": [0, u64::MAX, 1, 1]}}),
                    json!({"unstake_requests": {"user": ""}}),
                    json!({"unstake_requests": {"user": "x"}}),
                    json!({"all_unstake_requests": {"start_after": u64::MAX, "limit": 0}}),
                    json!({"all_unstake_requests": {}}),
                    json!({"all_unstake_requests_v2": {"start_after": 1, "limit": u32::MAX}}),
                    json!({"ibc_queue": {"start_after": u64::MAX, "limit": u32::MAX}}),
                    json!({"ibc_reply_queue": {"start_after": 0, "limit": 1}}),
                    json!({"pending_batch": {}}),
                    json!({"config": {}}),
                ];
                let m = msgs[*k as usize % msgs.len()].clone();
                let _ = self.q(m);
                let _ = self.w.query(Which::Treasury, "{\"config\":{}}");
                self.note_panics();
            }
        }
    }

    // --------------------------------------------------------------------------------------------
    // mid-run migration (C18 ii)
    // --------------------------------------------------------------------------------------------

    pub fn op_migrate_mid(&mut self, synthetic: u8) {
        let ibc = self.ibc();
        let staker = self.m.cfg.staker.clone();
        let infl = ns_key("inflight");
        let wait = ns_key("ibc_waiting_for_reply");
        let mut store = self.w.st.staking.map.clone();
        // only layouts the 1.0.0 contract could have produced: staked-asset transfers to the staker
        let mut legacy: Vec<(Vec<u8>, Value)> = vec![];
        for (k, v) in store.iter() {
            if k.starts_with(&infl) {
                let j: Value = match serde_json::from_slice(v) {
                    Ok(j) => j,
                    Err(_) => return,
                };
                if j["amount"]["denom"].as_str() != Some(ibc.as_str()) || j["receiver"].as_str() != Some(staker.as_str()) {
                    return;
                }
                legacy.push((k.clone(), j));
            }
        }
        for (k, j) in &legacy {
            let old = json!({"sequence": j["sequence"], "amount": j["amount"]["amount"], "status": j["status"]});
            store.insert(k.clone(), serde_json::to_vec(&old).unwrap());
        }
        let mut synth: Vec<(Vec<u8>, u128)> = vec![];
        for i in 0..(synthetic % 4) {
            let mut k = wait.clone();
            k.extend((9_000_000_000u64 + i as u64).to_be_bytes());
            let amt = 1000u128 + i as u128 * 7;
            store.insert(k.clone(), serde_json::to_vec(&json!({"amount": amt.to_string()})).unwrap());
            synth.push((k, amt));
        }
        store.insert(b"contract_info".to_vec(), serde_json::to_vec(&json!({"contract": "staking", "version": "1.0.0"})).unwrap());
        let before = store.clone();
        self.w.st.staking.map = store;
        let r = self.w.tx_migrate(Which::Staking, &json!({"v1_0_0_to_v1_1_0": {}}).to_string());
        let r = {
            self.stats.txs += 1;
            self.note_panics();
            r
        };
        self.stats.fault("F18_upgrade_mid_run");
        if !r.ok {
            if !r.env_fault {
                self.v("C18", "migration_from_1_0_0_succeeds", format!("1.0.0 -> 1.1.0 migration failed: {}", r.err));
            } else if self.w.st.staking.map != before {
                self.v("C18", "refused_migration_changes_nothing", "aborted migration left changes behind".into());
            }
            // put the current layout back so that the run can continue
            for (k, j) in &legacy {
                self.w.st.staking.map.insert(k.clone(), serde_json::to_vec(j).unwrap());
            }
            for (k, _) in &synth {
                self.w.st.staking.map.remove(k);
            }
            self.w.st.staking.map.insert(b"contract_info".to_vec(), serde_json::to_vec(&json!({"contract": "staking", "version": "1.1.0"})).unwrap());
            return;
        }
        if !legacy.is_empty() {
            self.stats.probe("migrated_with_tracked_packets");
        }
        let after = self.w.st.staking.map.clone();
        for k in changed_keys(&before, &after) {
            if !(k.starts_with(&infl) || k.starts_with(&wait) || k == b"contract_info") {
                self.v("C18", "other_data_untouched", format!("migration changed record {:?}", String::from_utf8_lossy(&k)));
                if k == b"state" {
                    let (a, b) = (json_of(&before, b"state"), json_of(&after, b"state"));
                    if a["pending_owner"] != b["pending_owner"] || a["owner_transfer_min_time"] != b["owner_transfer_min_time"] {
                        self.v("C12", "upgrade_keeps_nomination_and_clock", format!("the migration changed the pending handover from ({}, {}) to ({}, {})", a["pending_owner"], a["owner_transfer_min_time"], b["pending_owner"], b["owner_transfer_min_time"]));
                    }
                }
                if k == b"config" && json_of(&before, b"config")["stopped"] != json_of(&after, b"config")["stopped"] {
                    self.v("C10", "upgrade_keeps_halted_flag", "the halted flag changed through a migration".into());
                }
                if k.starts_with(&ns_key("batches")) || k.starts_with(&ns_key("unstake_requests")) {
                    self.v("C05", "upgrade_keeps_batches_and_requests", format!("the migration rewrote {} from {} to {}: pro-rata payouts are computed from these records", String::from_utf8_lossy(&k[2..]).chars().filter(|c| !c.is_control()).collect::<String>(), json_of(&before, &k), json_of(&after, &k)));
                }
            }
        }
        let keys_b: Vec<&Vec<u8>> = before.keys().filter(|k| k.starts_with(&infl) || k.starts_with(&wait)).collect();
        let keys_a: Vec<&Vec<u8>> = after.keys().filter(|k| k.starts_with(&infl) || k.starts_with(&wait)).collect();
        if keys_a != keys_b {
            self.v("C18", "records_keep_their_keys", "set of transfer / pending-reply keys changed".into());
        }
        for (k, j) in &legacy {
            let n = json_of(&after, k);
            if n["sequence"] != j["sequence"] || n["status"] != j["status"] || n["amount"]["amount"] != j["amount"]["amount"] || n["amount"]["denom"].as_str() != Some(ibc.as_str()) || n["receiver"].as_str() != Some(staker.as_str()) {
                self.v("C18", "packet_record_preserved", format!("record migrated to {} from legacy form of {}", n, j));
            }
        }
        for (k, amt) in &synth {
            let n = json_of(&after, k);
            if u(&n["amount"]["amount"]) != *amt || n["amount"]["denom"].as_str() != Some(ibc.as_str()) || n["receiver"].as_str() != Some(staker.as_str()) {
                self.v("C18", "pending_reply_preserved", format!("pending reply of {} migrated to {}", amt, n));
            }
            self.w.st.staking.map.remove(k);
        }
        let ci = json_of(&after, b"contract_info");
        if ci["version"].as_str() != Some(staking::contract::CONTRACT_VERSION) || ci["contract"].as_str() != Some("staking") {
            self.v("C18", "records_new_version", format!("contract_info after migration: {}", ci));
        }
    }

    // --------------------------------------------------------------------------------------------
    // hostile inputs (C16)
    // --------------------------------------------------------------------------------------------

    pub fn op_hostile_reply(&mut self, id_sel: u8, ok: bool, data: u8) {
        let ids = [0u64, 1, 2, u64::MAX, self.w.st.now_ns, self.w.st.now_ns + 1];
        let id = ids[id_sel as usize % ids.len()];
        let d: Option<Vec<u8>> = match data % 4 {
            0 => None,
            1 => Some(vec![]),
            2 => Some(vec![0xff, 0xff, 0xff]),
            _ => Some(pb_encode(&[PbField { no: 1, val: PbVal::Varint(7) }])),
        };
        let pre = self.w.st.staking.map.clone();
        let r = self.w.tx_reply(id, ok, d);
        self.stats.txs += 1;
        self.note_panics();
        if r.ok || self.w.st.staking.map != pre {
            self.v("C07", "unknown_reply_refused", format!("reply with unknown id {} was accepted", id));
        }
        self.last_tx = Some(r);
    }

    pub fn op_hostile_exec(&mut self, who: Who, kind: u8) {
        let sender = match self.who_addr(who) {
            Some(s) => s,
            None => return,
        };
        let ibc = self.ibc();
        let lst = self.lst.clone();
        let s = self.s_addr();
        if sender == s {
            return;
        }
        self.w.faucet(&sender, 1000);
        let other = "uosmo".to_string();
        self.w.st.bank.mint(&sender, &other, 1000);
        let (funds, msg): (Vec<(String, u128)>, Value) = match kind % 12 {
            0 => (vec![], json!({"liquid_stake": {}})),
            1 => (vec![(other.clone(), 10)], json!({"liquid_stake": {}})),
            2 => (vec![(ibc.clone(), 10), (other.clone(), 10)], json!({"liquid_stake": {}})),
            3 => (vec![(ibc.clone(), 10)], json!({"liquid_unstake": {}})),
            4 => (vec![], json!({"liquid_unstake": {}})),
            5 => (vec![], json!({"withdraw": {"batch_id": u64::MAX}})),
            6 => (vec![], json!({"withdraw": {"batch_id": 0}})),
            7 => (vec![(other.clone(), 5)], json!({"receive_rewards": {}})),
            8 => (vec![], json!({"receive_unstaked_tokens": {"batch_id": u64::MAX}})),
            9 => (vec![], json!({"recover_pending_ibc_transfers": {"paginated": true, "selected_packets": [], "receiver": ""}})),
            10 => (vec![], json!({"fee_withdraw": {"amount": u128::MAX.to_string()}})),
            _ => (vec![(lst.clone(), 0)], json!({"submit_batch": {"unknown_field": 1}})),
        };
        let pre = self.w.st.staking.map.clone();
        let r = self.w.tx_execute(&s, &sender, &funds, &msg.to_string());
        self.stats.txs += 1;
        self.note_panics();
        if r.ok && self.w.st.staking.map != pre {
            // cannot be modelled, and no property names these malformed messages: the run is set aside
            // (only happens on changed trees)
            self.stats.probe("hostile_exec_succeeded");
            self.v("SETASIDE", "hostile_exec_succeeded", format!("hostile message {} with funds {:?} succeeded", msg, funds));
        }
        self.last_tx = Some(r);
    }
}
