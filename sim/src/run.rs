//! Running cases: generation + execution, evaluation of a recorded case, minimisation.

use crate::engine::*;
use crate::eng_ops::op_kind;
use crate::gen;
use crate::ops::*;
use crate::util::*;
use serde::{Deserialize, Serialize};

#[derive(Serialize, Deserialize, Clone, Debug, PartialEq)]
pub enum Case {
    Staking { swarm: Swarm, ops: Vec<Op> },
    Treasury(crate::treasury_sim::TCase),
    CfgFuzz(crate::cfgfuzz::CCase),
    Migr(crate::migr::MCase),
    Hooks(crate::hooks::HCase),
    Arith(crate::arith::ACase),
}

#[derive(Clone, Debug, Default)]
pub struct Eval {
    pub viol: Vec<Violation>,
    pub stats: RunStats,
    pub hash: u64,
    pub nontrivial: bool,
    pub faulted: bool,
    pub events: Vec<String>,
    pub outcomes: Vec<(bool, u128, u128)>,
    pub first_ood_step: Option<usize>,
}

#[derive(Clone, Debug, Default)]
pub struct Known {
    pub c02_sweep: bool,
}

pub fn load_known() -> (Known, Vec<(String, String)>) {
    let path = std::env::var("MWSIM_KNOWN").unwrap_or_else(|_| "/verif/known_findings.json".to_string());
    let mut k = Known::default();
    let mut listed = vec![];
    if let Ok(s) = std::fs::read_to_string(&path) {
        if let Ok(v) = serde_json::from_str::<serde_json::Value>(&s) {
            if let Some(arr) = v["known_findings"].as_array() {
                for f in arr {
                    let p = f["property"].as_str().unwrap_or("").to_string();
                    let id = f["id"].as_str().unwrap_or("").to_string();
                    if id == "C02-ownerless-sweep-unbacked-fees" {
                        k.c02_sweep = true;
                    }
                    listed.push((p, f["what"].as_str().unwrap_or("").to_string()));
                }
            }
        }
    }
    (k, listed)
}

pub struct StakingOpts {
    pub force_no_oracle: bool,
    pub keep_events: bool,
    pub known: Known,
}

fn relevant_kinds(prop: &str) -> &'static [&'static str] {
    match prop {
        "C01" => &["stake_direct", "stake_proxy", "stake_hook", "op_rewards", "submit_batch", "recover", "admin_forced_recover"],
        "C02" => &["withdraw", "op_deliver", "admin_fee_withdraw", "recover", "op_rewards"],
        "C03" => &["stake_direct", "stake_proxy", "stake_hook", "submit_batch", "unstake"],
        "C04" => &["stake_direct", "stake_proxy", "stake_hook", "submit_batch"],
        "C05" => &["withdraw", "unstake"],
        "C06" => &["submit_batch", "op_deliver"],
        "C07" => &["relay_ack", "relay_full", "relay_timeout", "recover", "admin_forced_recover", "stray_callback"],
        "C08" => &["intruder", "breaker_by", "withdraw", "op_deliver", "op_rewards"],
        "C09" => &["op_deliver", "op_rewards", "stake_hook"],
        "C10" => &["admin_breaker", "breaker_by", "admin_resume"],
        "C11" => &["op_rewards", "admin_fee_withdraw"],
        "C12" => &["admin_transfer", "nominee_accept", "admin_revoke", "intruder"],
        "C14" => &["admin_update_config", "admin_validator"],
        "C15" => &["stake_direct", "stake_proxy", "stake_hook", "submit_batch", "op_rewards", "admin_resume"],
        "C17" => &["query"],
        "C18" => &["migrate_mid"],
        "C19" => &["stake_direct", "stake_proxy", "stake_hook", "submit_batch"],
        _ => &[],
    }
}

/// Execute a staking run. With `rng` the operation list is generated on the fly (adaptively) and
/// returned; without, the given list is executed. The run stops at the first step that produced a
/// violation of any property (the reference model cannot be trusted beyond it).
pub fn run_staking(swarm: &Swarm, given: Option<&[Op]>, mut rng: Option<&mut Rng>, opts: &StakingOpts, prop: &str) -> (Vec<Op>, Eval) {
    let mut sw = swarm.clone();
    if opts.force_no_oracle {
        sw.oracle = false;
    }
    let mut e = Engine::new(sw);
    e.force_no_oracle = opts.force_no_oracle;
    e.keep_events = opts.keep_events;
    e.known_c02_sweep = opts.known.c02_sweep;
    e.no_oracle_faults = prop == "C15";
    e.boot();
    let mut ops: Vec<Op> = vec![];
    let n_ops = swarm.n_ops as usize;
    let mut i = 0usize;
    let first = gen::first_ops(&e);
    loop {
        if e.must_stop() || e.end_run {
            break;
        }
        let op = match given {
            Some(g) => {
                if i >= g.len() {
                    break;
                }
                g[i].clone()
            }
            None => {
                if i >= n_ops {
                    break;
                }
                if i < first.len() {
                    first[i].clone()
                } else {
                    gen::next_op(&e, rng.as_mut().unwrap())
                }
            }
        };
        i += 1;
        e.step(&op);
        ops.push(op);
    }
    // fault firing counters from the world
    let f = e.w.faults.clone();
    if f.fired_ibc_submit > 0 {
        *e.stats.faults.entry("F1_ibc_submit_fails").or_insert(0) += f.fired_ibc_submit;
    }
    if f.fired_oracle > 0 {
        *e.stats.faults.entry("F7_oracle_rejects").or_insert(0) += f.fired_oracle;
    }
    if f.fired_tf > 0 {
        *e.stats.faults.entry("F8_tokenfactory_rejects").or_insert(0) += f.fired_tf;
    }
    if f.fired_reply_data > 0 {
        *e.stats.faults.entry("F20_transfer_response_without_data").or_insert(0) += f.fired_reply_data;
    }
    if f.fired_gas > 0 {
        *e.stats.faults.entry("F9_abort_at_storage_access").or_insert(0) += f.fired_gas;
    }
    let rel = relevant_kinds(prop);
    let relevant_ok: u64 = e.stats.op_kinds.iter().filter(|(k, _)| rel.is_empty() || rel.contains(k)).map(|(_, v)| v.1).sum();
    let faulted = e.stats.faults.values().sum::<u64>() > 0;
    let nontrivial = relevant_ok >= 1 && e.stats.tx_ok >= 3;
    let ev = Eval { first_ood_step: e.first_ood_step, viol: e.viol.clone(), hash: e.trace.0, nontrivial, faulted, events: std::mem::take(&mut e.event_log), outcomes: std::mem::take(&mut e.outcomes), stats: e.stats };
    (ops, ev)
}

/// Evaluate a recorded case for `prop`: returns all violations of the first violating step.
pub fn eval_case(case: &Case, prop: &str, known: &Known) -> Eval {
    match case {
        Case::Staking { swarm, ops } => {
            let opts = StakingOpts { force_no_oracle: false, keep_events: false, known: known.clone() };
            let (_, mut a) = run_staking(swarm, Some(ops), None, &opts, prop);
            if prop == "C15" && a.viol.is_empty() {
                pair_no_oracle(swarm, ops, &mut a, known);
            }
            a
        }
        Case::Treasury(c) => crate::treasury_sim::eval(c),
        Case::CfgFuzz(c) => crate::cfgfuzz::eval(c),
        Case::Migr(c) => crate::migr::eval(c),
        Case::Hooks(c) => crate::hooks::eval(c),
        Case::Arith(c) => crate::arith::eval(c),
    }
}

/// C15, second sentence: the same operation list with no oracle configured has identical outcomes.
fn pair_no_oracle(swarm: &Swarm, ops: &[Op], a: &mut Eval, known: &Known) {
    let opts = StakingOpts { force_no_oracle: true, keep_events: false, known: known.clone() };
    let (_, b) = run_staking(swarm, Some(ops), None, &opts, "C15");
    // violations of run B itself that belong to C15/C16 (e.g. a panic without oracle) are reported
    for v in &b.viol {
        if v.prop == "C15" || v.prop == "C16" {
            a.viol.push(Violation { prop: "C15", clause: "works_without_oracle", step: v.step, stop: true, msg: format!("with no oracle configured: [{} {}] {}", v.prop, v.clause, v.msg) });
            return;
        }
    }
    // beyond a panic outside the C16 domain (e.g. a rate too large for an 18-digit decimal, which only the
    // oracle path computes) the twins are no longer comparable
    let cut = a.first_ood_step.unwrap_or(usize::MAX).min(b.first_ood_step.unwrap_or(usize::MAX));
    let n = a.outcomes.len().min(b.outcomes.len()).min(cut.saturating_sub(1));
    for i in 0..n {
        if a.outcomes[i] != b.outcomes[i] {
            a.viol.push(Violation { prop: "C15", clause: "no_oracle_same_outcomes", step: i + 1, stop: true, msg: format!("step {} ({}) with oracle: ok={} N={} L={}; without oracle: ok={} N={} L={}", i + 1, ops.get(i).map(op_kind).unwrap_or("?"), a.outcomes[i].0, a.outcomes[i].1, a.outcomes[i].2, b.outcomes[i].0, b.outcomes[i].1, b.outcomes[i].2) });
            return;
        }
    }
    a.stats.probe("paired_no_oracle_run_compared");
}

pub fn profiles_for(prop: &str) -> &'static [Profile] {
    use Profile::*;
    match prop {
        "C01" => &[General, Ibc, Exit, Fees, General, Rates, Backlog],
        "C02" => &[Exit, General, Ibc, Fees, Exit, Backlog],
        "C03" => &[General, Rates, Ibc, Exit],
        "C04" => &[Rates, Rates, General, Exit],
        "C05" => &[Exit, Exit, Lifecycle, General],
        "C06" => &[Lifecycle, Lifecycle, Exit, Halt],
        "C07" => &[Ibc, Ibc, General, Upgrade, Backlog],
        "C08" => &[Admin, Admin, Halt, Exit, General],
        "C09" => &[Exit, Fees, Admin, General],
        "C10" => &[Halt, Halt, Admin],
        "C11" => &[Fees, Fees, General],
        "C12" => &[Admin],
        "C14" => &[Admin],
        "C15" => &[General, Rates, Fees, Exit],
        "C16" => &[Hostile, General, Ibc, Exit, Admin, Rates, Fees, Queries, Lifecycle, Halt, Upgrade, ManyBatches, Backlog],
        "C17" => &[Queries, Queries, Ibc, ManyBatches, Backlog],
        "C18" => &[Upgrade],
        "C19" => &[General, Rates, Exit],
        _ => &[General],
    }
}

/// Generate and evaluate the `idx`-th staking case of a property.
pub fn gen_staking(prop: &str, seed: u64, idx: u64, known: &Known, keep_events: bool) -> (Case, Eval) {
    let mut rng = Rng::new(seed);
    let profs = profiles_for(prop);
    let profile = profs[(idx % profs.len() as u64) as usize];
    let mut swarm = gen::gen_swarm(&mut rng, profile);
    if prop == "C15" {
        swarm.oracle = true;
    }
    let opts = StakingOpts { force_no_oracle: false, keep_events, known: known.clone() };
    let (ops, mut ev) = run_staking(&swarm, None, Some(&mut rng), &opts, prop);
    if prop == "C15" && ev.viol.is_empty() {
        pair_no_oracle(&swarm, &ops, &mut ev, known);
    }
    (Case::Staking { swarm, ops }, ev)
}

// ------------------------------------------------------------------------------------------------
// minimisation: ddmin over the operation list, same (property, clause) required
// ------------------------------------------------------------------------------------------------

pub fn first_matching(ev: &Eval, prop: &str, clause: Option<&str>) -> Option<Violation> {
    ev.viol.iter().find(|v| v.prop == prop && clause.map(|c| c == v.clause).unwrap_or(true)).cloned()
}

pub fn minimise(case: &Case, prop: &str, clause: &str, known: &Known) -> Case {
    let (swarm, ops) = match case {
        Case::Staking { swarm, ops } => (swarm.clone(), ops.clone()),
        other => return other.clone(),
    };
    let mut budget = 3000usize;
    let mut test = |ops: &[Op], budget: &mut usize| -> bool {
        if *budget == 0 {
            return false;
        }
        *budget -= 1;
        let c = Case::Staking { swarm: swarm.clone(), ops: ops.to_vec() };
        first_matching(&eval_case(&c, prop, known), prop, Some(clause)).is_some()
    };
    let mut cur = ops;
    // cut the tail after the violating step
    let ev = eval_case(&Case::Staking { swarm: swarm.clone(), ops: cur.clone() }, prop, known);
    if let Some(v) = first_matching(&ev, prop, Some(clause)) {
        if v.step <= cur.len() && v.step > 0 {
            let cut = cur[..v.step].to_vec();
            if test(&cut, &mut budget) {
                cur = cut;
            }
        }
    }
    let mut n = 2usize;
    while cur.len() >= 2 && budget > 0 {
        let chunk = (cur.len() + n - 1) / n;
        let mut reduced = false;
        let mut start = 0;
        while start < cur.len() {
            let end = (start + chunk).min(cur.len());
            let mut cand = cur[..start].to_vec();
            cand.extend_from_slice(&cur[end..]);
            if !cand.is_empty() && test(&cand, &mut budget) {
                cur = cand;
                n = (n - 1).max(2);
                reduced = true;
                break;
            }
            start = end;
        }
        if !reduced {
            if n >= cur.len() {
                break;
            }
            n = (n * 2).min(cur.len());
        }
    }
    // single-op removal to fixpoint
    let mut changed = true;
    while changed && budget > 0 {
        changed = false;
        let mut i = 0;
        while i < cur.len() {
            let mut cand = cur.clone();
            cand.remove(i);
            if !cand.is_empty() && test(&cand, &mut budget) {
                cur = cand;
                changed = true;
            } else {
                i += 1;
            }
        }
    }
    // simplify amounts
    for i in 0..cur.len() {
        let simpler: Vec<Op> = match &cur[i] {
            Op::Stake { user, amount, rcpt, flag, expect, via } => [1000u128, 100, 10].iter().filter(|a| **a < *amount).map(|a| Op::Stake { user: *user, amount: *a, rcpt: rcpt.clone(), flag: *flag, expect: *expect, via: *via }).collect(),
            Op::OpRewards { amount, mode } => [1000u128, 100].iter().filter(|a| **a < *amount).map(|a| Op::OpRewards { amount: *a, mode: *mode }).collect(),
            _ => vec![],
        };
        for s in simpler {
            let mut cand = cur.clone();
            cand[i] = s;
            if test(&cand, &mut budget) {
                cur = cand;
                break;
            }
        }
    }
    Case::Staking { swarm, ops: cur }
}
