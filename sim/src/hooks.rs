//! placeholder, filled in later
use crate::run::Eval;
use serde::{Deserialize, Serialize};

#[derive(Serialize, Deserialize, Clone, Debug, PartialEq)]
pub struct HCase {}

pub fn eval(_c: &HCase) -> Eval {
    Eval::default()
}

pub fn gen(_seed: u64) -> HCase {
    HCase {}
}
