//! C09, pure half: the contract's derivation of the ibc-hooks intermediate account against the
//! simulator's independent implementation of the Osmosis recipe, input by input; plus
//! unambiguity of "<channel>/<sender>" for every channel id the configuration validation accepts.
//! (The system half — genuine deliveries accepted, impostors refused — lives in the engine.)

use crate::engine::Violation;
use crate::run::Eval;
use crate::util::*;
use serde::{Deserialize, Serialize};

#[derive(Serialize, Deserialize, Clone, Debug, PartialEq)]
pub struct HCase {
    pub pairs: Vec<(String, String)>,
    pub prefix: String,
    pub channel_candidates: Vec<String>,
}

pub fn gen(seed: u64) -> HCase {
    let mut rng = Rng::new(seed);
    let prefix = rng.pick(&["osmo", "milk", "init", "a", "celestia", "x1y"]).to_string();
    let mut pairs = vec![];
    for _ in 0..rng.range(2, 8) {
        let ch = match rng.below(6) {
            0 => "channel-0".to_string(),
            1 => format!("channel-{}", rng.below(100)),
            2 => format!("channel-{}", rng.next_u64()),
            3 => format!("channel-{}", u64::MAX),
            4 => format!("channel-0{}", rng.below(10)),
            _ => format!("channel-{}", rng.below(5)),
        };
        let np = rng.pick(&["celestia", "init", "osmo", "cosmos"]).to_string();
        let n = if rng.chance(1, 4) { 32 } else { 20 };
        let sender = b32_encode(&np, &rng.bytes(n));
        pairs.push((ch, sender));
    }
    // near-duplicates: same sender over neighbouring channels, same channel with neighbouring senders
    if let Some((c, s)) = pairs.first().cloned() {
        pairs.push((format!("{}1", c), s.clone()));
        pairs.push((c, s));
    }
    let channel_candidates = vec![
        "channel-1".into(),
        "channel-1/".into(),
        "channel-1/x".into(),
        "channel-".into(),
        "channel-+1".into(),
        "channel- 1".into(),
        "channel-1 ".into(),
        "Channel-1".into(),
        "channel-1e3".into(),
        format!("channel-{}", rng.next_u64()),
        "channel-18446744073709551616".into(),
        "channel-0x10".into(),
        "channel--1".into(),
        "connection-1".into(),
        "".into(),
    ];
    HCase { pairs, prefix, channel_candidates }
}

pub fn eval(c: &HCase) -> Eval {
    let mut ev = Eval::default();
    let mut h = Fnv::default();
    let mut seen: std::collections::BTreeMap<String, (String, String)> = Default::default();
    for (i, (ch, sender)) in c.pairs.iter().enumerate() {
        ev.stats.ops += 1;
        let want = hooks_intermediate_sender(ch, sender, &c.prefix);
        let r = crate::host::guarded(|| staking::helpers::derive_intermediate_sender(ch, sender, &c.prefix));
        match r {
            crate::host::Guarded::Done(Ok(got)) => {
                if got != want {
                    ev.viol.push(Violation { stop: true, prop: "C09", clause: "derivation_matches_ibc_hooks", step: i + 1, msg: format!("derive({}, {}, {}) = {} but ibc-hooks derives {}", ch, sender, c.prefix, got, want) });
                }
                if let Some(prev) = seen.get(&got) {
                    if *prev != (ch.clone(), sender.clone()) {
                        ev.viol.push(Violation { stop: true, prop: "C09", clause: "no_collision", step: i + 1, msg: format!("{:?} and {:?} both map to {}", prev, (ch, sender), got) });
                    }
                }
                seen.insert(got.clone(), (ch.clone(), sender.clone()));
                h.str(&got);
            }
            crate::host::Guarded::Done(Err(e)) => ev.viol.push(Violation { stop: true, prop: "C09", clause: "derivation_matches_ibc_hooks", step: i + 1, msg: format!("derive({}, {}, {}) failed: {:?}", ch, sender, c.prefix, e) }),
            _ => ev.viol.push(Violation { stop: true, prop: "C16", clause: "panic", step: i + 1, msg: "derive_intermediate_sender panicked".into() }),
        }
    }
    // channel ids accepted by validation never contain the separator, so "<channel>/<sender>" splits uniquely
    for (i, ch) in c.channel_candidates.iter().enumerate() {
        let cfg = staking::types::UnsafeProtocolChainConfig {
            account_address_prefix: "osmo".into(),
            ibc_token_denom: format!("ibc/{}", "A".repeat(64)),
            ibc_channel_id: ch.clone(),
            minimum_liquid_stake_amount: cosmwasm_std::Uint128::new(1),
            oracle_address: None,
        };
        let r = crate::host::guarded(|| cfg.validate().is_ok());
        if let crate::host::Guarded::Done(true) = r {
            ev.stats.probe("channel_candidate_accepted");
            if ch.contains('/') || !ch.starts_with("channel-") {
                ev.viol.push(Violation { stop: true, prop: "C09", clause: "channel_format_unambiguous", step: 100 + i, msg: format!("channel id {:?} accepted by validation", ch) });
            }
        }
        h.str(ch);
    }
    // every protocol prefix the configuration validation accepts must be usable for the derivation
    let prefixes = ["", "a", "OSMO", "osmo", "o1", "x".repeat(83).as_str().to_string().as_str(), "y".repeat(84).as_str().to_string().as_str(), "os mo", "osmo!", "~"].iter().map(|s| s.to_string()).collect::<Vec<String>>();
    for (i, pfx) in prefixes.iter().enumerate() {
        let cfg = staking::types::UnsafeProtocolChainConfig {
            account_address_prefix: pfx.clone(),
            ibc_token_denom: format!("ibc/{}", "A".repeat(64)),
            ibc_channel_id: "channel-1".into(),
            minimum_liquid_stake_amount: cosmwasm_std::Uint128::new(1),
            oracle_address: None,
        };
        if let crate::host::Guarded::Done(Ok(stored)) = crate::host::guarded(|| cfg.validate().map(|c| c.account_address_prefix)) {
            ev.stats.probe("prefix_candidate_accepted");
            let sender = b32_encode("celestia", &[7u8; 20]);
            let want = hooks_intermediate_sender("channel-1", &sender, &stored);
            match crate::host::guarded(|| staking::helpers::derive_intermediate_sender("channel-1", &sender, &stored)) {
                crate::host::Guarded::Done(Ok(got)) if got == want => {}
                other => {
                    let got = match other {
                        crate::host::Guarded::Done(r) => format!("{:?}", r),
                        _ => "panic".to_string(),
                    };
                    ev.viol.push(Violation { stop: true, prop: "C09", clause: "accepted_prefix_is_derivable", step: 200 + i, msg: format!("protocol prefix {:?} is accepted (stored {:?}) but the intermediate account derives to {} instead of {}", pfx, stored, got, want) });
                }
            }
        }
    }
    ev.hash = h.0;
    ev.nontrivial = c.pairs.len() >= 2;
    ev.stats.tx_ok = c.pairs.len() as u64;
    ev
}
