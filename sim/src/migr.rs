//! placeholder, filled in later
use crate::run::Eval;
use serde::{Deserialize, Serialize};

#[derive(Serialize, Deserialize, Clone, Debug, PartialEq)]
pub struct MCase {}

pub fn eval(_c: &MCase) -> Eval {
    Eval::default()
}

pub fn gen(_seed: u64) -> MCase {
    MCase {}
}
