//! C18: version gate matrix, the three migration paths on generated stores, abort inside a
//! migration then retry. Raw storage is decoded with serde_json::Value only.

use crate::eng_admin::ns_key;
use crate::engine::{addr20, addr32, u, Violation};
use crate::run::Eval;
use crate::util::*;
use crate::world::*;
use serde::{Deserialize, Serialize};
use serde_json::{json, Value};
use std::collections::BTreeMap;

#[derive(Serialize, Deserialize, Clone, Debug, PartialEq)]
pub struct MCase {
    /// 0: 0.4.18->0.4.20, 1: 0.4.20->1.0.0, 2: 1.0.0->1.1.0
    pub path: u8,
    pub stored_name: u8,
    pub stored_version: u8,
    /// which message is sent (normally == path; differs for the gate matrix)
    pub msg_path: u8,
    pub packets: Vec<(u64, String, u8)>,
    pub replies: Vec<(u64, String)>,
    pub abort_at: Option<u16>,
    pub fill: u64,
    pub wrong_prefix_arg: bool,
}

pub const NAMES: &[&str] = &["staking", "staking", "staking", "treasury", "crates.io:staking", ""];
pub const VERSIONS: &[&str] = &["0.4.18", "0.4.20", "1.0.0", "1.1.0", "1.2.0", "0.4.19", "2.0.0", "garbage", "", "1.0.0-rc1", "0.9.9"];
const SOURCES: &[&str] = &["0.4.18", "0.4.20", "1.0.0"];
const STATUSES: &[&str] = &["sent", "ack_success", "ack_failure", "timed_out"];

pub fn gen(seed: u64) -> MCase {
    let mut rng = Rng::new(seed);
    let path = rng.below(3) as u8;
    let gate = rng.chance(1, 2);
    let (stored_name, stored_version, msg_path) = if gate { (rng.below(6) as u8, rng.below(11) as u8, if rng.chance(2, 3) { path } else { rng.below(3) as u8 }) } else { (0, path, path) };
    // mostly a handful of scattered sequences; sometimes a long consecutive stretch (page boundaries)
    // ... and now and then more open transfers than any page size or batch limit in the code (50)
    let huge = rng.chance(1, 12);
    let long = huge || rng.chance(1, 5);
    let np = if huge { rng.range(51, 75) } else if long { rng.range(9, 26) } else { rng.below(7) };
    let base = rng.range(1, 40);
    let mut seqs: Vec<u64> = vec![];
    let packets = (0..np)
        .map(|i| {
            let mut s = if long { base + i } else { rng.range(1, 60) };
            while seqs.contains(&s) {
                s += 1;
            }
            seqs.push(s);
            // the very large stores stay inside the stated amount domain so that the upgraded contract can be exercised on them
            let a = if huge { *rng.pick(&[1u128, 1000, 999_999_999_999, 10u128.pow(27)]) } else { *rng.pick(&[1u128, 1000, 999_999_999_999, 10u128.pow(27), u128::MAX]) };
            (s, a.to_string(), rng.below(4) as u8)
        })
        .collect();
    let replies = (0..if long && rng.chance(1, 2) { rng.range(9, 14) } else { rng.below(3) }).map(|i| (1_700_000_000_000_000_000 + i, rng.pick(&[1u128, 5000, u128::MAX]).to_string())).collect();
    MCase { path, stored_name, stored_version, msg_path, packets, replies, abort_at: if rng.chance(1, 4) { Some(rng.range(1, 30) as u16) } else { None }, fill: rng.next_u64(), wrong_prefix_arg: rng.chance(1, 6) }
}

pub fn semver_lt(a: &str, b: (u64, u64, u64)) -> Option<bool> {
    // plain x.y.z only (pre-release tags make a version smaller than its release)
    let (core, pre) = match a.split_once('-') {
        Some((c, p)) => (c, Some(p)),
        None => (a, None),
    };
    let p: Vec<&str> = core.split('.').collect();
    if p.len() != 3 {
        return None;
    }
    let v: Vec<u64> = p.iter().filter_map(|x| if x.chars().all(|c| c.is_ascii_digit()) && !x.is_empty() { x.parse().ok() } else { None }).collect();
    if v.len() != 3 {
        return None;
    }
    let t = (v[0], v[1], v[2]);
    Some(t < b || (t == b && pre.is_some()))
}

/// the mistyped argument is the protocol-chain prefix (and only that one)
fn proto_wrong(c: &MCase) -> bool {
    c.wrong_prefix_arg && c.fill % 5 == 4
}

fn msg_for(path: u8, c: &MCase, np: &str, pp: &str) -> Value {
    match path % 3 {
        0 => json!({"v0_4_18_to_v0_4_20": {"send_fees_to_treasury": c.fill % 2 == 0}}),
        1 => json!({"v0_4_20_to_v1_0_0": {
            "native_account_address_prefix": if c.wrong_prefix_arg && !proto_wrong(c) && c.fill % 3 != 1 { "cosmos" } else { np },
            "native_validator_address_prefix": if c.wrong_prefix_arg && !proto_wrong(c) && c.fill % 3 == 1 { np.to_string() } else { format!("{}valoper", np) },
            "native_token_denom": "utia",
            "protocol_account_address_prefix": if proto_wrong(c) { "osmosis" } else { pp },
        }}),
        _ => json!({"v1_0_0_to_v1_1_0": {}}),
    }
}

pub fn eval(c: &MCase) -> Eval {
    let mut ev = Eval::default();
    let (pp, np) = ("osmo", "celestia");
    let vp = "celestiavaloper";
    let setup = Setup {
        proto_prefix: pp.into(),
        native_prefix: np.into(),
        valoper_prefix: vp.into(),
        channel: "channel-3".into(),
        ibc_denom: format!("ibc/{}", hex(&sha2_of("d")).to_uppercase()),
        native_denom: "utia".into(),
        subdenom: "milkTIA".into(),
        staking_addr: addr32(pp, "staking-contract"),
        treasury_addr: addr32(pp, "treasury-contract"),
        oracle_addr: addr32(pp, "oracle-contract"),
        sink_addr: addr32(pp, "sink-contract"),
    };
    let ibc = setup.ibc_denom.clone();
    let admin = addr20(pp, "admin0");
    let staker = addr20(np, "staker0");
    let collector = addr20(np, "collector0");
    let treasury = setup.treasury_addr.clone();
    let oracle = setup.oracle_addr.clone();
    let mut w = World::new(setup, 1_700_000_000_000_000_000);
    let mut viol: Vec<Violation> = vec![];
    let mut rng = Rng::new(c.fill);
    // a real, current-layout store as the starting point
    let inst = json!({
        "native_chain_config": {"account_address_prefix": np, "validator_address_prefix": vp, "token_denom": "utia", "validators": [addr20(vp, "v0"), addr20(vp, "v1")], "unbonding_period": 1_814_400u64, "staker_address": staker, "reward_collector_address": collector},
        "protocol_chain_config": {"account_address_prefix": pp, "ibc_token_denom": ibc, "ibc_channel_id": "channel-3", "minimum_liquid_stake_amount": "100", "oracle_address": oracle},
        "protocol_fee_config": {"dao_treasury_fee": "10000", "treasury_address": treasury},
        "liquid_stake_token_denom": "milkTIA", "batch_period": 86_400u64, "monitors": [addr20(pp, "m0")],
    });
    let r = w.tx_instantiate(Which::Staking, &admin, &inst.to_string());
    if !r.ok {
        viol.push(Violation { stop: true, prop: "HARNESS", clause: "boot", step: 0, msg: r.err.clone() });
    }
    // The batch record the contract has just written must have the released storage format: batches
    // written before an upgrade are read back by the upgraded code (no migration rewrites them), so a
    // drift of the encoding strands every existing batch (C06: it can no longer be submitted or received;
    // C18: a value-bearing record is not preserved).
    {
        let mut k = ns_key("batches");
        k.extend(1u64.to_be_bytes());
        let written: Value = w.st.staking.map.get(&k).and_then(|v| serde_json::from_slice(v).ok()).unwrap_or(Value::Null);
        let golden = json!({"id": 1, "batch_total_liquid_stake": "0", "expected_native_unstaked": null, "received_native_unstaked": null, "liquid_unstake_requests": null, "unstake_requests_count": 0, "next_batch_action_time": 1_700_000_000u64 + 86_400, "status": "Pending"});
        if r.ok && written != golden {
            let m = format!("a fresh pending batch is stored as {} but the released format is {}: batches written before an upgrade become unreadable", written, golden);
            viol.push(Violation { stop: true, prop: "C18", clause: "batch_storage_format_stable", step: 0, msg: m.clone() });
            viol.push(Violation { stop: true, prop: "C06", clause: "batch_storage_format_stable", step: 0, msg: m });
        }
    }
    let path = c.path % 3;
    // legacy configuration layouts
    let monitors_opt = if rng.chance(1, 4) { Value::Null } else { json!([addr20(pp, "m0"), addr20(pp, "m1")]) };
    let oracle_opt = if rng.chance(1, 3) { Value::Null } else { json!(oracle) };
    let send_fees = rng.chance(1, 2);
    let old_common = json!({
        "native_token_denom": ibc,
        "liquid_stake_token_denom": format!("factory/{}/milkTIA", w.setup.staking_addr),
        "treasury_address": treasury,
        "monitors": monitors_opt,
        "validators": if c.wrong_prefix_arg && !proto_wrong(c) && c.fill % 3 == 2 { json!([addr20(vp, "v0"), addr20("cosmosvaloper", "foreign"), addr20(vp, "v2")]) } else { json!([addr20(vp, "v0"), addr20(vp, "v1"), addr20(vp, "v2")]) },
        "batch_period": rng.range(1, 1_000_000),
        "unbonding_period": rng.range(1, 10_000_000),
        "protocol_fee_config": {"dao_treasury_fee": if rng.chance(1, 5) { "0".to_string() } else { rng.below(100_001).to_string() }},
        "multisig_address_config": {"staker_address": staker, "reward_collector_address": collector},
        "minimum_liquid_stake_amount": rng.below(1_000_000).to_string(),
        "ibc_channel_id": format!("channel-{}", rng.below(500)),
        "stopped": rng.chance(1, 2),
        "oracle_address": oracle_opt,
    });
    match path {
        0 => {
            let mut cfg = old_common.clone();
            cfg["operators"] = if rng.chance(1, 2) { Value::Null } else { json!([addr20(pp, "op0")]) };
            cfg["oracle_contract_address"] = if rng.chance(1, 2) { Value::Null } else { json!(addr32(pp, "o1")) };
            cfg["oracle_contract_address_v2"] = if rng.chance(1, 2) { Value::Null } else { json!(addr32(pp, "o2")) };
            w.st.staking.map.insert(b"config".to_vec(), serde_json::to_vec(&cfg).unwrap());
        }
        1 => {
            let mut cfg = old_common.clone();
            cfg["send_fees_to_treasury"] = json!(send_fees);
            w.st.staking.map.insert(b"config".to_vec(), serde_json::to_vec(&cfg).unwrap());
        }
        _ => {
            let infl = ns_key("inflight");
            let wait = ns_key("ibc_waiting_for_reply");
            for (seq, amt, st) in &c.packets {
                let mut k = infl.clone();
                k.extend(seq.to_be_bytes());
                w.st.staking.map.insert(k, serde_json::to_vec(&json!({"sequence": seq, "amount": amt, "status": STATUSES[*st as usize % 4]})).unwrap());
            }
            for (id, amt) in &c.replies {
                let mut k = wait.clone();
                k.extend(id.to_be_bytes());
                w.st.staking.map.insert(k, serde_json::to_vec(&json!({"amount": amt})).unwrap());
            }
        }
    }
    let name = NAMES[c.stored_name as usize % NAMES.len()];
    let ver = VERSIONS[c.stored_version as usize % VERSIONS.len()];
    w.st.staking.map.insert(b"contract_info".to_vec(), serde_json::to_vec(&json!({"contract": name, "version": ver})).unwrap());
    let before: BTreeMap<Vec<u8>, Vec<u8>> = w.st.staking.map.clone();
    let msg = msg_for(c.msg_path, c, np, pp);
    let code = staking::contract::CONTRACT_VERSION;
    let code_t: Vec<u64> = code.split('.').filter_map(|x| x.parse().ok()).collect();
    let code_t = (code_t[0], code_t[1], code_t[2]);
    let source = SOURCES[c.msg_path as usize % 3];
    // the gate: same contract name, exactly the path's source version, strictly older than the code
    let gate_ok = name == "staking" && ver == source && semver_lt(ver, code_t) == Some(true);
    // the store has the layout of `path`; a message of another path may fail to decode it even when the gate passes
    let layout_ok = c.msg_path % 3 == path;
    // a mistyped protocol prefix only matters if the old store holds a protocol-chain address to check against it
    let proto_addr_present = !oracle_opt.is_null() || monitors_opt.as_array().map(|a| !a.is_empty()).unwrap_or(false) || send_fees;
    let args_ok = !(c.msg_path % 3 == 1 && c.wrong_prefix_arg && (!proto_wrong(c) || proto_addr_present));
    // the prefix the new configuration has to carry is the one supplied
    let pp_arg = if proto_wrong(c) { "osmosis" } else { pp };

    if let Some(k) = c.abort_at {
        w.faults.abort_at_access = Some(k as u64);
    }
    let r = w.tx_migrate(Which::Staking, &msg.to_string());
    ev.stats.txs += 1;
    if r.out_of_gas {
        ev.stats.fault("F9_abort_at_storage_access");
        if w.st.staking.map != before {
            viol.push(Violation { stop: true, prop: "C18", clause: "aborted_migration_changes_nothing", step: 1, msg: "storage differs after an aborted migration".into() });
        }
        // retry without the fault
        let r2 = w.tx_migrate(Which::Staking, &msg.to_string());
        ev.stats.txs += 1;
        check_result(c, &r2, &before, &w, gate_ok, layout_ok, args_ok, name, ver, &msg, &mut viol, &mut ev, send_fees, &ibc, &staker, np, pp_arg);
        if r2.ok {
            ev.stats.probe("migration_retried_after_abort");
        }
        if r2.ok && gate_ok && layout_ok && c.msg_path % 3 == 2 {
            queue_lists_all(c, &mut w, &mut viol);
        }
    } else {
        check_result(c, &r, &before, &w, gate_ok, layout_ok, args_ok, name, ver, &msg, &mut viol, &mut ev, send_fees, &ibc, &staker, np, pp_arg);
        if r.ok && gate_ok && layout_ok && c.msg_path % 3 == 2 {
            queue_lists_all(c, &mut w, &mut viol);
        }
    }
    for p in &w.panics {
        viol.push(Violation { stop: true, prop: "C16", clause: "panic", step: 1, msg: format!("{}::{} panicked: {} | input: {}", p.contract, p.entry, p.msg, p.input) });
    }
    let mut h = Fnv::default();
    h.u64(c.path as u64);
    h.u64(c.msg_path as u64);
    h.str(name);
    h.str(ver);
    h.u64(c.packets.len() as u64);
    h.u64(c.replies.len() as u64);
    h.u64(c.abort_at.unwrap_or(0) as u64);
    h.u64(r.ok as u64);
    for p in &c.packets {
        h.u64(p.0);
        h.u64(p.2 as u64);
    }
    ev.hash = h.0;
    ev.viol = viol;
    ev.nontrivial = true;
    ev.stats.ops = 1;
    ev.faulted = c.abort_at.is_some();
    ev
}

/// C17 across an upgrade: paging through IbcQueue lists every stored transfer exactly once, in ascending order.
fn queue_lists_all(c: &MCase, w2: &mut World, viol: &mut Vec<Violation>) {
    let mut want: Vec<u64> = c.packets.iter().map(|p| p.0).collect();
    want.sort();
    want.dedup();
    'limits: for limit in [1u32, 3, 50] {
        let mut got: Vec<u64> = vec![];
        let mut cursor: Option<u64> = None;
        for _ in 0..(want.len() + 2) {
            let q = json!({"ibc_queue": {"start_after": cursor, "limit": limit}});
            let page: Vec<u64> = match w2.query(Which::Staking, &q.to_string()).ok().and_then(|b| serde_json::from_slice::<Value>(&b).ok()) {
                Some(v) => v["ibc_queue"].as_array().map(|a| a.iter().map(|p| p["sequence"].as_u64().unwrap_or(u64::MAX)).collect()).unwrap_or_default(),
                None => {
                    viol.push(Violation { stop: true, prop: "C17", clause: "queue_after_upgrade", step: 1, msg: "IbcQueue query failed after the migration".into() });
                    break 'limits;
                }
            };
            if page.is_empty() {
                break;
            }
            cursor = page.last().cloned();
            got.extend(page);
        }
        if got != want {
            viol.push(Violation { stop: true, prop: "C17", clause: "queue_after_upgrade", step: 1, msg: format!("after the migration, paging IbcQueue with limit {} lists {:?} but the stored transfers are {:?}", limit, got, want) });
            break 'limits;
        }
    }
    // the upgraded contract keeps working on the migrated records: a permissionless recovery either re-sends
    // something or reports that nothing is refundable, it never crashes (a panic is recorded for C16)
    // (only inside the stated domain: amounts up to 10^27)
    if c.packets.iter().any(|p| p.1.parse::<u128>().map(|a| a > 10u128.pow(27)).unwrap_or(true)) {
        return;
    }
    let user = addr20(&w2.setup.proto_prefix.clone(), "anybody");
    let s_addr = w2.setup.staking_addr.clone();
    for paginated in [Value::Null, json!(true)] {
        let _ = w2.tx_execute(&s_addr, &user, &[], &json!({"recover_pending_ibc_transfers": {"paginated": paginated, "selected_packets": Value::Null, "receiver": Value::Null}}).to_string());
    }
}

#[allow(clippy::too_many_arguments)]
fn check_result(c: &MCase, r: &TxResult, before: &BTreeMap<Vec<u8>, Vec<u8>>, w: &World, gate_ok: bool, layout_ok: bool, args_ok: bool, name: &str, ver: &str, msg: &Value, viol: &mut Vec<Violation>, ev: &mut Eval, send_fees: bool, ibc: &str, staker: &str, np: &str, pp: &str) {
    let after = &w.st.staking.map;
    if !r.ok {
        if after != before {
            viol.push(Violation { stop: true, prop: "C18", clause: "refused_migration_changes_nothing", step: 1, msg: format!("refused migration {} from ({}, {}) changed storage", msg, name, ver) });
        }
        if gate_ok && layout_ok && args_ok && !r.panicked && !r.out_of_gas {
            viol.push(Violation { stop: true, prop: "C18", clause: "migration_from_exact_source_succeeds", step: 1, msg: format!("migration {} from ({}, {}) refused: {}", msg, name, ver, r.err) });
        }
        ev.stats.probe("migration_refused");
        return;
    }
    ev.stats.tx_ok += 1;
    if !gate_ok {
        viol.push(Violation { stop: true, prop: "C18", clause: "version_gate", step: 1, msg: format!("migration {} succeeded from stored contract ({:?}, {:?})", msg, name, ver) });
        return;
    }
    if !layout_ok {
        return;
    }
    let j = |m: &BTreeMap<Vec<u8>, Vec<u8>>, k: &[u8]| -> Value { m.get(k).and_then(|v| serde_json::from_slice(v).ok()).unwrap_or(Value::Null) };
    let ci = j(after, b"contract_info");
    if ci["version"].as_str() != Some(staking::contract::CONTRACT_VERSION) || ci["contract"].as_str() != Some("staking") {
        viol.push(Violation { stop: true, prop: "C18", clause: "records_new_version", step: 1, msg: format!("contract_info after migration: {}", ci) });
    }
    let infl = ns_key("inflight");
    let wait = ns_key("ibc_waiting_for_reply");
    let path = c.msg_path % 3;
    // every record the path does not own is byte-identical
    for k in before.keys().chain(after.keys()) {
        let owned = k == b"contract_info" || (path < 2 && k == b"config") || (path == 2 && (k.starts_with(&infl) || k.starts_with(&wait)));
        if !owned && before.get(k) != after.get(k) {
            viol.push(Violation { stop: true, prop: "C18", clause: "other_data_untouched", step: 1, msg: format!("record {:?} changed", String::from_utf8_lossy(k)) });
            if k == b"config" && j(before, b"config")["stopped"] != j(after, b"config")["stopped"] {
                viol.push(Violation { stop: true, prop: "C10", clause: "upgrade_keeps_halted_flag", step: 1, msg: "the halted flag changed through a migration".into() });
            }
            break;
        }
    }
    let old = j(before, b"config");
    let new = j(after, b"config");
    match path {
        0 => {
            for f in ["native_token_denom", "liquid_stake_token_denom", "treasury_address", "monitors", "validators", "batch_period", "unbonding_period", "protocol_fee_config", "multisig_address_config", "minimum_liquid_stake_amount", "ibc_channel_id", "stopped", "oracle_address"] {
                if old[f] != new[f] {
                    viol.push(Violation { stop: true, prop: "C18", clause: "old_path_field_by_field", step: 1, msg: format!("0.4.18->0.4.20 changed {}: {} -> {}", f, old[f], new[f]) });
                    if f == "stopped" {
                        viol.push(Violation { stop: true, prop: "C10", clause: "upgrade_keeps_halted_flag", step: 1, msg: format!("the halted flag changed from {} to {} through a migration", old[f], new[f]) });
                    }
                }
            }
            if new["send_fees_to_treasury"] != msg["v0_4_18_to_v0_4_20"]["send_fees_to_treasury"] {
                viol.push(Violation { stop: true, prop: "C18", clause: "old_path_field_by_field", step: 1, msg: "send_fees_to_treasury not taken from the message".into() });
            }
        }
        1 => {
            let pairs: Vec<(Value, Value, &str)> = vec![
                (new["native_chain_config"]["validators"].clone(), old["validators"].clone(), "validators"),
                (new["native_chain_config"]["unbonding_period"].clone(), old["unbonding_period"].clone(), "unbonding_period"),
                (new["native_chain_config"]["staker_address"].clone(), old["multisig_address_config"]["staker_address"].clone(), "staker_address"),
                (new["native_chain_config"]["reward_collector_address"].clone(), old["multisig_address_config"]["reward_collector_address"].clone(), "reward_collector_address"),
                (new["native_chain_config"]["account_address_prefix"].clone(), json!(np), "native account prefix"),
                (new["native_chain_config"]["validator_address_prefix"].clone(), json!(format!("{}valoper", np)), "validator prefix"),
                (new["native_chain_config"]["token_denom"].clone(), json!("utia"), "native token denom"),
                (new["protocol_chain_config"]["account_address_prefix"].clone(), json!(pp), "protocol prefix"),
                (new["protocol_chain_config"]["ibc_channel_id"].clone(), old["ibc_channel_id"].clone(), "ibc_channel_id"),
                (new["protocol_chain_config"]["ibc_token_denom"].clone(), old["native_token_denom"].clone(), "ibc_token_denom"),
                (new["protocol_chain_config"]["minimum_liquid_stake_amount"].clone(), old["minimum_liquid_stake_amount"].clone(), "minimum_liquid_stake_amount"),
                (new["protocol_chain_config"]["oracle_address"].clone(), old["oracle_address"].clone(), "oracle_address"),
                (new["protocol_fee_config"]["dao_treasury_fee"].clone(), old["protocol_fee_config"]["dao_treasury_fee"].clone(), "dao_treasury_fee"),
                (new["protocol_fee_config"]["treasury_address"].clone(), if send_fees { old["treasury_address"].clone() } else { Value::Null }, "treasury_address"),
                (new["liquid_stake_token_denom"].clone(), old["liquid_stake_token_denom"].clone(), "liquid_stake_token_denom"),
                (new["batch_period"].clone(), old["batch_period"].clone(), "batch_period"),
                (new["monitors"].clone(), if old["monitors"].is_null() { json!([]) } else { old["monitors"].clone() }, "monitors"),
                (new["stopped"].clone(), old["stopped"].clone(), "stopped"),
            ];
            for (n, o, f) in pairs {
                if n != o {
                    viol.push(Violation { stop: true, prop: "C18", clause: "old_path_field_by_field", step: 1, msg: format!("0.4.20->1.0.0 field {}: new {} vs old {}", f, n, o) });
                    // two of these fields carry other properties' guarantees through the upgrade
                    if f == "stopped" {
                        viol.push(Violation { stop: true, prop: "C10", clause: "upgrade_keeps_halted_flag", step: 1, msg: format!("the halted flag changed from {} to {} through a migration: only the admin's ResumeContract may lift a halt", o, n) });
                    }
                    if f == "staker_address" || f == "reward_collector_address" {
                        // the accounts authenticated for ReceiveUnstakedTokens / ReceiveRewards are derived from these two
                        let m = format!("after the migration the {} is {} instead of {}: the ibc-hooks account of another native address is accepted in its place and the genuine one is refused", f, n, o);
                        viol.push(Violation { stop: true, prop: "C09", clause: "upgrade_keeps_hook_senders", step: 1, msg: m.clone() });
                        viol.push(Violation { stop: true, prop: "C08", clause: "upgrade_keeps_authorised_senders", step: 1, msg: m });
                    }
                    if f == "unbonding_period" || f == "batch_period" {
                        viol.push(Violation { stop: true, prop: "C06", clause: "upgrade_keeps_periods", step: 1, msg: format!("after the migration {} is {} instead of {}: batches become due / receivable at other times than one period after submission", f, n, o) });
                    }
                    if f == "protocol prefix" {
                        viol.push(Violation { stop: true, prop: "C09", clause: "upgrade_keeps_hook_prefix", step: 1, msg: format!("after the migration the ibc-hooks accounts are derived under prefix {} instead of the supplied {}", n, o) });
                    }
                }
            }
        }
        _ => {
            let kb: Vec<&Vec<u8>> = before.keys().filter(|k| k.starts_with(&infl) || k.starts_with(&wait)).collect();
            let ka: Vec<&Vec<u8>> = after.keys().filter(|k| k.starts_with(&infl) || k.starts_with(&wait)).collect();
            if ka != kb {
                viol.push(Violation { stop: true, prop: "C18", clause: "records_keep_their_keys", step: 1, msg: "set of transfer / pending-reply keys changed".into() });
            }
            for (seq, amt, st) in &c.packets {
                let mut k = infl.clone();
                k.extend(seq.to_be_bytes());
                let n = j(after, &k);
                if n["sequence"].as_u64() != Some(*seq) || n["amount"]["amount"].as_str() != Some(amt.as_str()) || n["amount"]["denom"].as_str() != Some(ibc) || n["receiver"].as_str() != Some(staker) || n["status"].as_str() != Some(STATUSES[*st as usize % 4]) {
                    viol.push(Violation { stop: true, prop: "C18", clause: "packet_record_preserved", step: 1, msg: format!("packet (seq {}, amount {}, status {}) migrated to {}", seq, amt, STATUSES[*st as usize % 4], n) });
                }
            }
            for (id, amt) in &c.replies {
                let mut k = wait.clone();
                k.extend(id.to_be_bytes());
                let n = j(after, &k);
                if n["amount"]["amount"].as_str() != Some(amt.as_str()) || n["amount"]["denom"].as_str() != Some(ibc) || n["receiver"].as_str() != Some(staker) {
                    viol.push(Violation { stop: true, prop: "C18", clause: "pending_reply_preserved", step: 1, msg: format!("pending reply (id {}, amount {}) migrated to {}", id, amt, n) });
                }
            }
            let _ = u(&Value::Null);
            if !c.packets.is_empty() {
                ev.stats.probe("migrated_with_tracked_packets");
            }
        }
    }
}
