//! placeholder, filled in later
use crate::run::Eval;
use serde::{Deserialize, Serialize};

#[derive(Serialize, Deserialize, Clone, Debug, PartialEq)]
pub struct CCase {}

pub fn eval(_c: &CCase) -> Eval {
    Eval::default()
}

pub fn gen(_seed: u64) -> CCase {
    CCase {}
}
