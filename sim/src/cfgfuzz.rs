//! C14: field-level corruption of valid configurations against an independent well-formedness
//! checker, for instantiate, UpdateConfig (all subsets of sections) and validator edits.

use crate::engine::{addr20, addr32, Violation};
use crate::run::Eval;
use crate::util::*;
use crate::world::*;
use serde::{Deserialize, Serialize};
use serde_json::{json, Value};

#[derive(Serialize, Deserialize, Clone, Debug, PartialEq)]
pub struct CCase {
    pub proto_prefix: String,
    pub native_prefix: String,
    /// 0 instantiate, 1 update, 2 add validator, 3 remove validator
    pub mode: u8,
    pub sections: u8,
    /// (field, kind, arg)
    pub muts: Vec<(u8, u8, u8)>,
    pub with_oracle: bool,
    pub with_treasury: bool,
    /// the base configuration lists its first validator in the (legal) upper-case spelling
    #[serde(default)]
    pub upper_validator: bool,
}

pub fn gen(seed: u64) -> CCase {
    let mut rng = Rng::new(seed);
    let proto_prefix = rng.pick(&["osmo", "osmo", "milk", "init"]).to_string();
    let native_prefix = if rng.chance(1, 8) { proto_prefix.clone() } else { rng.pick(&["celestia", "init", "tia"]).to_string() };
    let n = if rng.chance(1, 6) { 0 } else { rng.range(1, 3) };
    CCase {
        proto_prefix,
        native_prefix,
        mode: *rng.pick(&[0u8, 0, 1, 1, 1, 2, 3]),
        sections: rng.range(1, 31) as u8,
        muts: (0..n).map(|_| (rng.below(17) as u8, rng.below(14) as u8, rng.below(64) as u8)).collect(),
        with_oracle: rng.chance(3, 4),
        with_treasury: rng.chance(1, 2),
        upper_validator: rng.chance(1, 4),
    }
}

fn flip_last(s: &str) -> String {
    let mut t = s.to_string();
    match t.pop() {
        Some('q') => t.push('p'),
        Some(_) => t.push('q'),
        None => {}
    }
    t
}

/// generic string corruption
fn mutate(s: &str, kind: u8, arg: u8, other_prefix: &str) -> String {
    match kind % 14 {
        0 => s.to_uppercase(),
        1 => {
            let mut cs: Vec<char> = s.chars().collect();
            if !cs.is_empty() {
                let i = arg as usize % cs.len();
                cs[i] = if cs[i].is_ascii_lowercase() { cs[i].to_ascii_uppercase() } else { cs[i].to_ascii_lowercase() };
            }
            cs.into_iter().collect()
        }
        2 => {
            // char-wise: earlier corruptions may have inserted multi-byte characters
            let n = s.chars().count().saturating_sub(1 + arg as usize % 3);
            s.chars().take(n).collect()
        }
        3 => flip_last(s),
        4 => String::new(),
        5 => match b32_decode(s) {
            Some((_, d, _)) => b32_encode(other_prefix, &d),
            None => format!("{}x", s),
        },
        6 => match b32_decode(s) {
            Some((h, d, _)) => b32_encode_variant(&h, &d, B32Variant::Bech32m),
            None => s.to_string(),
        },
        7 => format!("{}{}", s, ['a', '1', ' ', 'Q'][arg as usize % 4]),
        8 => format!(" {}", s),
        9 => format!("{}é", s),
        10 => match b32_decode(s) {
            Some((h, d, _)) => b32_encode(&h, &d[..d.len().min(19)]),
            None => s.to_string(),
        },
        11 => s.replace('1', "l"),
        12 => s.to_string(), // no change
        _ => s.chars().rev().collect(),
    }
}

const BAD_CHANNELS: &[&str] = &["channel-", "channel-1x", "chan-1", "channel--1", "channel-18446744073709551616", "channel-+5", "channel-007", "Channel-1", "channel-1 ", "", "channel-1/2", "channel-١", "channel-123-4", "channel-7-", "channel-7-x", "channel-1-2-3", "channel-5-channel-6"];
const BAD_IBC: &[&str] = &["ibc/", "ibc/ABC", "IBC/", "ibc", "", "xibc/"];
const BAD_PREFIX: &[&str] = &["OSMO", "Osmo", "", "os mo", "osmo\u{7f}", "ośmo", "CELESTIA", "celestiA"];
const BAD_DENOM: &[&str] = &["uti", "utia1", "u-tia", "", "milk TIA", "milkTIÄ", "abcd", "ABCD", "milkTIA ", " milkTIA", "milkTIA\n", "stTIA\t", "milk/TIA", "a/b/c", "milk.TIA", "milk_TIA", "milk:TIA", "9milk", "factory/x/milkTIA"];

/// Independent well-formedness of the supplied sections of a stored configuration.
pub fn well_formed(cfg: &Value, native: bool, protocol: bool, fee: bool, monitors: bool) -> Result<(), String> {
    let hrp_ok = |h: &str| !h.is_empty() && h.len() <= 83 && h.bytes().all(|b| (33..=126).contains(&b) && !b.is_ascii_uppercase());
    let addr_ok = |a: &str, hrp: &str| b32_decode(a).map(|d| d.0 == hrp).unwrap_or(false);
    let pp = cfg["protocol_chain_config"]["account_address_prefix"].as_str().unwrap_or("");
    if native {
        let n = &cfg["native_chain_config"];
        let ap = n["account_address_prefix"].as_str().unwrap_or("");
        let vp = n["validator_address_prefix"].as_str().unwrap_or("");
        if !hrp_ok(ap) {
            return Err(format!("native account prefix {:?}", ap));
        }
        if !hrp_ok(vp) {
            return Err(format!("validator prefix {:?}", vp));
        }
        let td = n["token_denom"].as_str().unwrap_or("");
        if td.is_empty() || !td.chars().all(|c| c.is_ascii_alphabetic()) {
            return Err(format!("native token denom {:?}", td));
        }
        let vals: Vec<&str> = n["validators"].as_array().map(|a| a.iter().map(|v| v.as_str().unwrap_or("")).collect()).unwrap_or_default();
        for (i, v) in vals.iter().enumerate() {
            if !addr_ok(v, vp) {
                return Err(format!("validator {:?} under {:?}", v, vp));
            }
            if vals[..i].contains(v) {
                return Err(format!("validator {:?} listed twice", v));
            }
        }
        for f in ["staker_address", "reward_collector_address"] {
            let a = n[f].as_str().unwrap_or("");
            if !addr_ok(a, ap) {
                return Err(format!("{} {:?} under {:?}", f, a, ap));
            }
        }
    }
    if protocol {
        let p = &cfg["protocol_chain_config"];
        if !hrp_ok(pp) {
            return Err(format!("protocol account prefix {:?}", pp));
        }
        let ch = p["ibc_channel_id"].as_str().unwrap_or("");
        let ok = ch.strip_prefix("channel-").map(|s| s.parse::<u64>().is_ok()).unwrap_or(false);
        if !ok {
            return Err(format!("channel {:?}", ch));
        }
        let d = p["ibc_token_denom"].as_str().unwrap_or("");
        let okd = d.strip_prefix("ibc/").map(|s| s.len() == 64 || s.chars().count() == 64).unwrap_or(false);
        if !okd {
            return Err(format!("ibc denom {:?}", d));
        }
        if let Some(o) = p["oracle_address"].as_str() {
            if !addr_ok(o, pp) {
                return Err(format!("oracle {:?} under {:?}", o, pp));
            }
        }
    }
    if fee {
        if let Some(t) = cfg["protocol_fee_config"]["treasury_address"].as_str() {
            if !addr_ok(t, pp) {
                return Err(format!("treasury {:?} under {:?}", t, pp));
            }
        }
    }
    if monitors {
        let ms: Vec<&str> = cfg["monitors"].as_array().map(|a| a.iter().map(|v| v.as_str().unwrap_or("")).collect()).unwrap_or_default();
        for (i, m) in ms.iter().enumerate() {
            if !addr_ok(m, pp) {
                return Err(format!("monitor {:?} under {:?}", m, pp));
            }
            if ms[..i].contains(m) {
                return Err(format!("monitor {:?} listed twice", m));
            }
        }
    }
    Ok(())
}

struct Parts {
    native: Value,
    protocol: Value,
    fee: Value,
    monitors: Value,
    subdenom: String,
    batch_period: u64,
}

fn base_parts(c: &CCase, variant: u8) -> Parts {
    let pp = &c.proto_prefix;
    let np = &c.native_prefix;
    let vp = format!("{}valoper", np);
    let tag = |s: &str| format!("{}{}", s, variant);
    Parts {
        native: json!({
            "account_address_prefix": np,
            "validator_address_prefix": vp,
            "token_denom": "utia",
            "validators": [if c.upper_validator { addr20(&vp, &tag("v0")).to_uppercase() } else { addr20(&vp, &tag("v0")) }, addr20(&vp, &tag("v1"))],
            "unbonding_period": 1_814_400u64 + variant as u64,
            "staker_address": addr20(np, &tag("staker")),
            "reward_collector_address": addr20(np, &tag("collector")),
        }),
        protocol: json!({
            "account_address_prefix": pp,
            "ibc_token_denom": format!("ibc/{}", hex(&sha2_of(&tag("denom"))).to_uppercase()),
            "ibc_channel_id": format!("channel-{}", 7 + variant as u64),
            "minimum_liquid_stake_amount": "100",
            "oracle_address": if c.with_oracle { Some(addr32(pp, &tag("oracle"))) } else { None },
        }),
        fee: json!({"dao_treasury_fee": "10000", "treasury_address": if c.with_treasury { Some(addr32(pp, &tag("treasury"))) } else { None }}),
        monitors: json!([addr20(pp, &tag("m0")), addr20(pp, &tag("m1"))]),
        subdenom: "milkTIA".into(),
        batch_period: 86_400 + variant as u64,
    }
}

fn apply_muts(c: &CCase, p: &mut Parts) -> bool {
    let mut changed = false;
    let np = c.native_prefix.clone();
    let pp = c.proto_prefix.clone();
    for (field, kind, arg) in &c.muts {
        let (kind, arg) = (*kind, *arg);
        let mut_s = |v: &mut Value, other: &str| {
            if let Some(s) = v.as_str() {
                let n = mutate(s, kind, arg, other);
                if n != s {
                    *v = json!(n);
                    return true;
                }
            }
            false
        };
        changed |= match field % 17 {
            0 => {
                p.native["account_address_prefix"] = json!(match kind % 3 {
                    0 => BAD_PREFIX[arg as usize % BAD_PREFIX.len()].to_string(),
                    1 => mutate(&np, kind, arg, "x"),
                    _ => np.to_uppercase(),
                });
                true
            }
            1 => {
                let vp = format!("{}valoper", np);
                p.native["validator_address_prefix"] = json!(match kind % 4 {
                    0 => BAD_PREFIX[arg as usize % BAD_PREFIX.len()].to_string(),
                    1 => np.clone(),
                    2 => vp.to_uppercase(),
                    _ => mutate(&vp, kind, arg, "x"),
                });
                true
            }
            2 => {
                p.native["token_denom"] = json!(BAD_DENOM[arg as usize % BAD_DENOM.len()]);
                true
            }
            3 => mut_s(&mut p.native["validators"][0], &np),
            4 => {
                let a = p.native["validators"].as_array().cloned().unwrap_or_default();
                let mut b = a.clone();
                match kind % 3 {
                    0 => b.push(a[arg as usize % a.len()].clone()),
                    1 => b.push(json!(a[0].as_str().unwrap_or("").to_uppercase())),
                    _ => b.push(json!(addr20(&np, "notavaloper"))),
                }
                p.native["validators"] = json!(b);
                true
            }
            5 => mut_s(&mut p.native["staker_address"], &pp),
            6 => mut_s(&mut p.native["reward_collector_address"], &format!("{}valoper", np)),
            7 => {
                p.protocol["account_address_prefix"] = json!(match kind % 3 {
                    0 => BAD_PREFIX[arg as usize % BAD_PREFIX.len()].to_string(),
                    1 => mutate(&pp, kind, arg, "x"),
                    _ => pp.to_uppercase(),
                });
                true
            }
            8 => {
                let cur = p.protocol["ibc_token_denom"].as_str().unwrap_or("").to_string();
                p.protocol["ibc_token_denom"] = json!(match kind % 8 {
                    // the right length and alphabet under another chain's or module's prefix
                    6 | 7 => cur.replacen("ibc/", ["l2/", "move/", "factory/", "IBC/"][arg as usize % 4], 1),
                    4 => format!("ibc/{}", cur),
                    5 => cur.replacen("ibc/", "ibc//", 1),
                    0 => BAD_IBC[arg as usize % BAD_IBC.len()].to_string(),
                    1 => {
                        let n = cur.chars().count().saturating_sub(1);
                        cur.chars().take(n).collect()
                    }
                    2 => format!("{}A", cur),
                    _ => cur.replacen("ibc/", "ibc", 1),
                });
                true
            }
            9 => {
                p.protocol["ibc_channel_id"] = json!(BAD_CHANNELS[arg as usize % BAD_CHANNELS.len()]);
                true
            }
            10 => {
                if p.protocol["oracle_address"].is_null() {
                    p.protocol["oracle_address"] = json!(addr20(&np, "oracle-on-native"));
                    true
                } else {
                    mut_s(&mut p.protocol["oracle_address"], &np)
                }
            }
            11 => {
                if p.fee["treasury_address"].is_null() {
                    p.fee["treasury_address"] = json!(addr20(&np, "treasury-on-native"));
                    true
                } else {
                    mut_s(&mut p.fee["treasury_address"], &np)
                }
            }
            12 => mut_s(&mut p.monitors[0], &np),
            13 => {
                let a = p.monitors.as_array().cloned().unwrap_or_default();
                let mut b = a.clone();
                match kind % 3 {
                    0 => b.push(a[arg as usize % a.len()].clone()),
                    1 => b.push(json!(a[0].as_str().unwrap_or("").to_uppercase())),
                    _ => b.push(json!(addr20(&np, "monitor-on-native"))),
                }
                p.monitors = json!(b);
                true
            }
            14 => {
                p.subdenom = match kind % 4 {
                    // legal: exactly the longest sub-denom a token factory accepts, and one more
                    0 => "a".repeat(44),
                    1 => "b".repeat(45),
                    _ => BAD_DENOM[arg as usize % BAD_DENOM.len()].to_string(),
                };
                true
            }
            15 => {
                // periods are plain numbers: every value is well-formed, none may crash the contract
                // 1.7e9 is the simulated block time of this module: deadline exactly at / just beyond the Timestamp limit
                let limit = u64::MAX / 1_000_000_000;
                p.batch_period = [u64::MAX, u64::MAX - 1_700_000_000, 0, u64::MAX / 2, limit - 1_700_000_000, limit - 1_700_000_000 + 1, limit, limit - 850_000_000][arg as usize % 8];
                true
            }
            _ => {
                p.native["unbonding_period"] = json!([u64::MAX, u64::MAX - 1_700_000_000, 0][arg as usize % 3]);
                true
            }
        };
    }
    changed
}

pub fn eval(c: &CCase) -> Eval {
    let mut ev = Eval::default();
    let pp = c.proto_prefix.clone();
    let setup = Setup {
        proto_prefix: pp.clone(),
        native_prefix: c.native_prefix.clone(),
        valoper_prefix: format!("{}valoper", c.native_prefix),
        channel: "channel-7".into(),
        ibc_denom: "ibc/X".into(),
        native_denom: "utia".into(),
        subdenom: "milkTIA".into(),
        staking_addr: addr32(&pp, "staking-contract"),
        treasury_addr: addr32(&pp, "treasury-contract"),
        oracle_addr: addr32(&pp, "oracle-contract"),
        sink_addr: addr32(&pp, "sink-contract"),
    };
    let s_addr = setup.staking_addr.clone();
    let admin = addr20(&pp, "admin0");
    let mut w = World::new(setup, 1_700_000_000_000_000_000);
    let mut viol = vec![];
    let mut h = Fnv::default();
    let inst = |p: &Parts| json!({"native_chain_config": p.native, "protocol_chain_config": p.protocol, "protocol_fee_config": p.fee, "liquid_stake_token_denom": p.subdenom, "batch_period": p.batch_period, "monitors": p.monitors}).to_string();
    let get_cfg = |w: &mut World| -> Option<Value> { w.query(Which::Staking, "{\"config\":{}}").ok().and_then(|b| serde_json::from_slice(&b).ok()) };
    let raw_cfg = |w: &World| -> Value { w.st.staking.map.get(&b"config".to_vec()).and_then(|v| serde_json::from_slice(v).ok()).unwrap_or(Value::Null) };

    if c.mode == 0 {
        let mut p = base_parts(c, 0);
        let corrupted = apply_muts(c, &mut p);
        let r = w.tx_instantiate(Which::Staking, &admin, &inst(&p));
        ev.stats.txs += 1;
        if r.ok {
            ev.stats.tx_ok += 1;
            match get_cfg(&mut w) {
                Some(cfg) => {
                    if let Err(e) = well_formed(&cfg, true, true, true, true) {
                        viol.push(Violation { stop: true, prop: "C14", clause: "accepted_config_is_well_formed", step: 1, msg: format!("instantiate accepted an ill-formed configuration ({}): {}", e, cfg) });
                    }
                    let lst = cfg["liquid_stake_token_denom"].as_str().unwrap_or("");
                    let sub = lst.rsplit('/').next().unwrap_or("");
                    if sub.is_empty() || !sub.chars().all(|c| c.is_ascii_alphabetic()) || lst != format!("factory/{}/{}", s_addr, sub) {
                        viol.push(Violation { stop: true, prop: "C14", clause: "accepted_config_is_well_formed", step: 1, msg: format!("LST denom {:?}", lst) });
                    }
                    // C19: the create-denom message is for the configured sub-denom, with the contract as sender
                    let creates: Vec<(String, String)> = r.effects.iter().filter_map(|e| match e { Effect::TfCreate { sender, subdenom, .. } => Some((sender.clone(), subdenom.clone())), _ => None }).collect();
                    if creates.len() != 1 || creates[0].0 != s_addr || creates[0].1 != sub || creates[0].1 != p.subdenom || lst != format!("factory/{}/{}", s_addr, p.subdenom) {
                        viol.push(Violation { stop: true, prop: "C19", clause: "create_denom_matches_config", step: 1, msg: format!("instantiate with sub-denom {:?} emitted create-denom {:?} and configured the LST denom {:?}", p.subdenom, creates, lst) });
                    }
                    if corrupted {
                        ev.stats.probe("corrupted_instantiate_accepted_but_well_formed");
                    }
                }
                None => viol.push(Violation { stop: true, prop: "C16", clause: "queries_fail", step: 1, msg: "Config query failed after instantiate".into() }),
            }
        } else if !corrupted && !r.panicked {
            viol.push(Violation { stop: true, prop: "HARNESS", clause: "valid_config_refused", step: 1, msg: format!("uncorrupted instantiate refused: {}", r.err) });
        } else {
            ev.stats.probe("corrupted_instantiate_refused");
        }
        h.u64(r.ok as u64);
    } else {
        let base = base_parts(c, 0);
        let r = w.tx_instantiate(Which::Staking, &admin, &inst(&base));
        if !r.ok {
            viol.push(Violation { stop: true, prop: "HARNESS", clause: "valid_config_refused", step: 0, msg: format!("base instantiate refused: {}", r.err) });
        } else if c.mode == 1 {
            let mut p = base_parts(c, 1);
            let corrupted = apply_muts(c, &mut p);
            let m = c.sections;
            let (sn, sp, sf, sm, sb) = (m & 1 != 0, m & 2 != 0, m & 4 != 0, m & 8 != 0, m & 16 != 0);
            let msg = json!({"update_config": {
                "native_chain_config": if sn { p.native.clone() } else { Value::Null },
                "protocol_chain_config": if sp { p.protocol.clone() } else { Value::Null },
                "protocol_fee_config": if sf { p.fee.clone() } else { Value::Null },
                "monitors": if sm { p.monitors.clone() } else { Value::Null },
                "batch_period": if sb { json!(p.batch_period) } else { Value::Null },
            }});
            let before = raw_cfg(&w);
            let store_before = w.st.staking.map.clone();
            let r = w.tx_execute(&s_addr, &admin, &[], &msg.to_string());
            ev.stats.txs += 1;
            if r.ok {
                ev.stats.tx_ok += 1;
                let after = raw_cfg(&w);
                if let Err(e) = well_formed(&after, sn, sp, sf, sm) {
                    viol.push(Violation { stop: true, prop: "C14", clause: "accepted_config_is_well_formed", step: 1, msg: format!("UpdateConfig accepted an ill-formed section ({}): {}", e, msg) });
                }
                for (name, supplied) in [("native_chain_config", sn), ("protocol_chain_config", sp), ("protocol_fee_config", sf), ("monitors", sm), ("batch_period", sb)] {
                    if !supplied && before[name] != after[name] {
                        viol.push(Violation { stop: true, prop: "C14", clause: "update_is_sectional", step: 1, msg: format!("section {} not supplied but changed from {} to {}", name, before[name], after[name]) });
                    }
                }
                if before["liquid_stake_token_denom"] != after["liquid_stake_token_denom"] || before["stopped"] != after["stopped"] {
                    viol.push(Violation { stop: true, prop: "C14", clause: "update_never_touches_denom_or_flag", step: 1, msg: format!("LST denom / stopped changed: {} -> {}", before, after) });
                }
                for (k, v) in &w.st.staking.map {
                    if k != b"config" && store_before.get(k) != Some(v) {
                        viol.push(Violation { stop: true, prop: "C14", clause: "update_is_sectional", step: 1, msg: format!("UpdateConfig changed record {:?}", String::from_utf8_lossy(k)) });
                    }
                }
                if corrupted {
                    ev.stats.probe("corrupted_update_accepted_but_well_formed");
                }
            } else {
                if w.st.staking.map != store_before {
                    viol.push(Violation { stop: true, prop: "C14", clause: "refused_update_changes_nothing", step: 1, msg: "refused UpdateConfig changed storage".into() });
                }
                if !corrupted && !r.panicked {
                    viol.push(Violation { stop: true, prop: "HARNESS", clause: "valid_config_refused", step: 1, msg: format!("uncorrupted update refused: {}", r.err) });
                }
                ev.stats.probe("corrupted_update_refused");
            }
            h.u64(r.ok as u64);
            h.u64(m as u64);
        } else {
            // validator edits
            let vp = format!("{}valoper", c.native_prefix);
            let existing = base.native["validators"][0].as_str().unwrap_or("").to_string();
            let fresh = addr20(&vp, "v-new");
            let (kind, arg) = c.muts.first().map(|m| (m.1, m.2)).unwrap_or((12, 0));
            let subject = if c.sections % 2 == 0 { existing.clone() } else { fresh.clone() };
            let candidate = mutate(&subject, kind, arg, &c.native_prefix);
            let before = raw_cfg(&w);
            let old: Vec<String> = before["native_chain_config"]["validators"].as_array().map(|a| a.iter().map(|v| v.as_str().unwrap_or("").to_string()).collect()).unwrap_or_default();
            let msg = if c.mode == 2 { json!({"add_validator": {"new_validator": candidate}}) } else { json!({"remove_validator": {"validator": candidate}}) };
            let r = w.tx_execute(&s_addr, &admin, &[], &msg.to_string());
            ev.stats.txs += 1;
            if r.ok {
                ev.stats.tx_ok += 1;
                let after = raw_cfg(&w);
                let new: Vec<String> = after["native_chain_config"]["validators"].as_array().map(|a| a.iter().map(|v| v.as_str().unwrap_or("").to_string()).collect()).unwrap_or_default();
                let wf = b32_decode(&candidate).map(|d| d.0 == vp).unwrap_or(false);
                let mut expect = old.clone();
                let ok = if c.mode == 2 {
                    let dup = old.contains(&candidate);
                    expect.push(candidate.clone());
                    wf && !dup
                } else {
                    let present = old.contains(&candidate);
                    expect.retain(|x| *x != candidate);
                    wf && present
                };
                if !ok {
                    viol.push(Violation { stop: true, prop: "C14", clause: "validator_edit_validates", step: 1, msg: format!("{} accepted with old list {:?}", msg, old) });
                } else if new != expect {
                    viol.push(Violation { stop: true, prop: "C14", clause: "validator_edit_exact", step: 1, msg: format!("{} turned {:?} into {:?}", msg, old, new) });
                }
                let mut a2 = after.clone();
                a2["native_chain_config"]["validators"] = before["native_chain_config"]["validators"].clone();
                if a2 != before {
                    viol.push(Violation { stop: true, prop: "C14", clause: "validator_edit_exact", step: 1, msg: "validator edit changed other configuration".into() });
                }
            }
            h.u64(r.ok as u64);
            h.str(&candidate);
        }
    }
    for p in &w.panics {
        viol.push(Violation { stop: true, prop: "C16", clause: "panic", step: 1, msg: format!("{}::{} panicked: {} | input: {}", p.contract, p.entry, p.msg, p.input) });
    }
    for m in &c.muts {
        h.u64(m.0 as u64 * 10000 + m.1 as u64 * 100 + m.2 as u64);
    }
    h.str(&c.proto_prefix);
    h.str(&c.native_prefix);
    h.u64(c.mode as u64);
    ev.viol = viol;
    ev.hash = h.0;
    ev.nontrivial = !c.muts.is_empty();
    ev.stats.ops = 1;
    ev
}
