//! mwsim — deterministic simulation of the MilkyWay contracts with fault injection.
//!
//!   mwsim check <PROP> [--tier quick|thorough] [--runs N] [--workers N]
//!   mwsim replay <file>
//!   mwsim trace <PROP> <from> <to>        per-run event hashes (determinism self-test, C19 differential)
//!   mwsim dump <PROP> <idx>               print one generated run (operations, events, violations)
//!
//! Exit codes: 0 held on everything explored; 1 violation (line `VIOLATION property=<id> replay=<path>`);
//! 2 harness error.

mod arith;
mod cfgfuzz;
mod eng_admin;
mod eng_ops;
mod engine;
mod gen;
mod hooks;
mod host;
mod migr;
mod ops;
mod run;
mod treasury_sim;
mod util;
mod world;

use run::*;
use serde_json::{json, Value};
use std::collections::{BTreeMap, BTreeSet};
use std::sync::atomic::{AtomicU64, Ordering};
use std::sync::Mutex;
use util::*;

const DEFAULT_SEED: u64 = 20261004;

fn flavour() -> &'static str {
    if world::MINIWASM {
        "miniwasm"
    } else {
        "osmosis"
    }
}

fn prop_hash(p: &str) -> u64 {
    let mut h = Fnv::default();
    h.str(p);
    h.0
}

fn verif_seed() -> u64 {
    std::env::var("VERIF_SEED").ok().and_then(|s| s.parse::<u64>().ok()).unwrap_or(DEFAULT_SEED)
}

fn run_seed(seed: u64, prop: &str, idx: u64) -> u64 {
    // C19 compares the two builds run by run, so its seeds must not depend on the flavour
    let fl = if prop == "C19" { 0 } else { prop_hash(flavour()) };
    mix3(seed, prop_hash(prop) ^ fl, idx)
}

#[derive(Clone, Copy, PartialEq, Debug)]
enum Source {
    Staking,
    Treasury,
    CfgFuzz,
    Migr,
    Hooks,
    Arith,
}

fn sources(prop: &str) -> Vec<Source> {
    match prop {
        "C04" => vec![Source::Staking, Source::Staking, Source::Staking, Source::Arith],
        "C06" | "C08" | "C17" => vec![Source::Staking, Source::Staking, Source::Staking, Source::Staking, Source::Migr],
        "C09" => vec![Source::Staking, Source::Staking, Source::Hooks, Source::Migr],
        "C10" => vec![Source::Staking, Source::Staking, Source::Staking, Source::Migr],
        "C12" => vec![Source::Staking, Source::Treasury],
        "C13" => vec![Source::Treasury],
        "C14" => vec![Source::Staking, Source::CfgFuzz],
        "C16" => vec![Source::Staking, Source::Staking, Source::Staking, Source::Treasury, Source::CfgFuzz, Source::Migr],
        "C18" => vec![Source::Staking, Source::Migr, Source::Migr, Source::Treasury],
        "C19" => vec![Source::Staking, Source::Staking, Source::Staking, Source::CfgFuzz],
        _ => vec![Source::Staking],
    }
}

fn budget(prop: &str, tier: &str) -> u64 {
    let quick = match prop {
        "C04" | "C16" => 30_000,
        "C07" | "C13" | "C14" => 24_000,
        "C09" | "C17" | "C18" => 16_000,
        "C15" | "C19" => 10_000,
        _ => 20_000,
    };
    if tier == "thorough" {
        quick * 20
    } else {
        quick
    }
}

fn gen_case(prop: &str, seed: u64, idx: u64, known: &Known, keep_events: bool) -> (Case, Eval) {
    let srcs = sources(prop);
    let src = srcs[(idx % srcs.len() as u64) as usize];
    let rs = run_seed(seed, prop, idx);
    match src {
        Source::Staking => gen_staking(prop, rs, idx / srcs.len() as u64, known, keep_events),
        Source::Treasury => {
            let c = treasury_sim::gen(rs, prop);
            let e = treasury_sim::eval(&c);
            (Case::Treasury(c), e)
        }
        Source::CfgFuzz => {
            let c = cfgfuzz::gen(rs);
            let e = cfgfuzz::eval(&c);
            (Case::CfgFuzz(c), e)
        }
        Source::Migr => {
            let c = migr::gen(rs);
            let e = migr::eval(&c);
            (Case::Migr(c), e)
        }
        Source::Hooks => {
            let c = hooks::gen(rs);
            let e = hooks::eval(&c);
            (Case::Hooks(c), e)
        }
        Source::Arith => {
            let c = arith::gen(rs);
            let e = arith::eval(&c);
            (Case::Arith(c), e)
        }
    }
}

fn events_hash(ev: &Eval) -> u64 {
    let mut h = Fnv::default();
    for l in &ev.events {
        h.str(l);
    }
    h.u64(ev.hash);
    h.0
}

fn sibling_exe() -> Option<std::path::PathBuf> {
    if let Ok(p) = std::env::var("MWSIM_SIBLING") {
        return Some(p.into());
    }
    let me = std::env::current_exe().ok()?;
    let s = me.to_string_lossy().to_string();
    let other = if s.contains("target-osmo") { s.replace("target-osmo", "target-mini") } else { s.replace("target-mini", "target-osmo") };
    let p = std::path::PathBuf::from(other);
    if p.exists() && p != me {
        Some(p)
    } else {
        None
    }
}

struct Found {
    idx: u64,
    case: Case,
    viol: engine::Violation,
}

struct Totals {
    evaluations: u64,
    hashes: BTreeSet<u64>,
    nontrivial_hashes: BTreeSet<u64>,
    faulted_runs: u64,
    stats: engine::RunStats,
    samples: Vec<Value>,
}

fn explore(prop: &str, seed: u64, runs: u64, workers: usize, known: &Known, keep_events: bool, per_run: Option<&Mutex<BTreeMap<u64, (u64, bool)>>>) -> (Totals, Option<Found>) {
    let totals = Mutex::new(Totals { evaluations: 0, hashes: BTreeSet::new(), nontrivial_hashes: BTreeSet::new(), faulted_runs: 0, stats: engine::RunStats::default(), samples: vec![] });
    let found: Mutex<Option<Found>> = Mutex::new(None);
    let harness: Mutex<Option<String>> = Mutex::new(None);
    let noboot: Mutex<(u64, Option<String>)> = Mutex::new((0, None));
    let chunk = 512u64;
    let mut start = 0u64;
    while start < runs {
        let end = (start + chunk).min(runs);
        let next = AtomicU64::new(start);
        std::thread::scope(|sc| {
            for _ in 0..workers {
                sc.spawn(|| loop {
                    let idx = next.fetch_add(1, Ordering::SeqCst);
                    if idx >= end {
                        break;
                    }
                    let (case, ev) = gen_case(prop, seed, idx, known, keep_events);
                    let target = first_matching(&ev, prop, None);
                    if let Some(hv) = first_matching(&ev, "HARNESS", None) {
                        let mut hm = harness.lock().unwrap();
                        if hm.is_none() {
                            *hm = Some(format!("run {} step {} [{}] {}", idx, hv.step, hv.clause, hv.msg));
                        }
                    }
                    if let Some(nb) = first_matching(&ev, "SETASIDE", None) {
                        let mut g = noboot.lock().unwrap();
                        g.0 += 1;
                        if g.1.is_none() {
                            g.1 = Some(format!("run {} {}", idx, nb.msg));
                        }
                    }
                    if let Some(pr) = per_run {
                        let h = if keep_events { events_hash(&ev) } else { ev.hash };
                        pr.lock().unwrap().insert(idx, (h, target.is_some()));
                    }
                    {
                        let mut t = totals.lock().unwrap();
                        t.evaluations += 1;
                        t.hashes.insert(ev.hash);
                        if ev.nontrivial {
                            t.nontrivial_hashes.insert(ev.hash);
                        }
                        if ev.faulted {
                            t.faulted_runs += 1;
                        }
                        t.stats.merge(&ev.stats);
                        if idx < 3 {
                            t.samples.push(json!({"run": idx, "case": serde_json::to_value(&case).unwrap_or(Value::Null)}));
                        }
                    }
                    if let Some(v) = target {
                        let mut f = found.lock().unwrap();
                        if f.as_ref().map(|x| idx < x.idx).unwrap_or(true) {
                            *f = Some(Found { idx, case, viol: v });
                        }
                    }
                });
            }
        });
        if found.lock().unwrap().is_some() {
            break;
        }
        start = end;
    }
    let mut t = totals.into_inner().unwrap();
    t.samples.sort_by_key(|s| s["run"].as_u64().unwrap_or(0));
    if let Some(h) = harness.into_inner().unwrap() {
        eprintln!("HARNESS ERROR: {}", h);
        std::process::exit(2);
    }
    let (nb, first) = noboot.into_inner().unwrap();
    if nb > 0 {
        eprintln!("note: {} of {} runs were set aside: the tree did something no property speaks about and the model cannot follow (first: {})", nb, t.evaluations, first.unwrap_or_default());
        if nb * 2 > t.evaluations && found.lock().unwrap().is_none() {
            eprintln!("HARNESS ERROR: most runs had to be set aside");
            std::process::exit(2);
        }
    }
    (t, found.into_inner().unwrap())
}

fn components() -> Value {
    json!({
        "real_code": ["staking::contract::{instantiate,execute,query,sudo,reply,migrate} and everything they call", "treasury::contract::{instantiate,execute,query,migrate}", "cw-storage-plus / cosmwasm-std serialisation", "initia-proto token-factory messages (miniwasm build)"],
        "stubs": ["chain runtime (submessage/reply/rollback semantics)", "bank", "token factory (osmosis/miniwasm flavour, hand-written protobuf reader)", "IBC transfer + ibc-hooks (callbacks, refunds, inbound wasm memo)", "relayer (scheduler-driven)", "native chain + operator", "oracle contract (records posts)", "poolmanager (records swaps)"],
    })
}

fn write_evidence(path: &str, prop: &str, tier: &str, seed: u64, t: &Totals, wall: f64, violations: u64, extra: Value) {
    let rule = "cases are generated by one xoshiro256** stream per run derived from (VERIF_SEED, property, build flavour, run index): a swarm configuration and an adaptively generated operation/fault list executed against the real contracts in the simulated world; a case counts as non-trivial when at least one operation kind relevant to the property succeeded and at least three transactions committed; distinct = distinct trace hashes (operation kinds, outcomes, totals, queue and batch counts after every step)";
    let runs_per_hour = if wall > 0.0 { (t.evaluations as f64 / wall * 3600.0) as u64 } else { 0 };
    let mut cov = json!({
        "evaluations": t.evaluations,
        "distinct_nontrivial": t.nontrivial_hashes.len(),
        "rule": rule,
        "samples": t.samples,
        "distinct_traces": t.hashes.len(),
        "runs_with_at_least_one_fault": t.faulted_runs,
        "operations_executed": t.stats.ops,
        "transactions": t.stats.txs,
        "transactions_committed": t.stats.tx_ok,
        "simulated_seconds": t.stats.sim_seconds,
        "runs_per_hour": runs_per_hour,
        "fault_kinds_fired": t.stats.faults,
        "rare_condition_probes": t.stats.probes,
        "operation_kinds": t.stats.op_kinds.iter().map(|(k, v)| (k.to_string(), json!({"executed": v.0, "succeeded": v.1}))).collect::<BTreeMap<String, Value>>(),
        "distinct_abstract_state_x_operation_pairs": t.stats.pairs.len(),
        "known_findings_exercised": t.stats.known,
        "panics_outside_c16_domain": t.stats.panics_out_of_domain,
        "build_flavours": [flavour()],
        "components": components(),
    });
    if let (Some(c), Some(e)) = (cov.as_object_mut(), extra.as_object()) {
        for (k, v) in e {
            c.insert(k.clone(), v.clone());
        }
    }
    let ev = json!({
        "property_id": prop,
        "tier": tier,
        "seed": seed,
        "level": "exploration",
        "coverage": cov,
        "assumptions": [
            "the world stubs (runtime, bank, token factory, IBC/ibc-hooks, relayer, native chain, operator, oracle, poolmanager) are the trusted base; they follow the upstream CosmWasm / ibc-go / Osmosis ibc-hooks semantics as described in DESIGN.md §2",
            "seeded exploration samples schedules and fault sequences; a clean batch is evidence, not proof",
            "see DESIGN.md §12 for interpretation choices (quiescent channel/staker changes, honest admin in conservation checks, permissive zero-amount bank sends)"
        ],
        "wall_s": wall,
        "violations": violations,
    });
    if let Some(dir) = std::path::Path::new(path).parent() {
        let _ = std::fs::create_dir_all(dir);
    }
    std::fs::write(path, serde_json::to_string_pretty(&ev).unwrap()).expect("write evidence");
}

fn write_replay(prop: &str, seed: u64, f: &Found, minimised: &Case, original_len: usize) -> String {
    let dir = std::env::var("MWSIM_REPLAY_DIR").unwrap_or_else(|_| "/verif/replays".to_string());
    let _ = std::fs::create_dir_all(&dir);
    let path = format!("{}/{}-{}-{}-{}.json", dir, prop, flavour(), seed, f.idx);
    let v = json!({
        "property": prop,
        "clause": f.viol.clause,
        "message": f.viol.msg,
        "seed": seed,
        "run": f.idx,
        "flavour": flavour(),
        "original_operations": original_len,
        "case": serde_json::to_value(minimised).unwrap(),
    });
    std::fs::write(&path, serde_json::to_string_pretty(&v).unwrap()).expect("write replay");
    path
}

fn case_len(c: &Case) -> usize {
    match c {
        Case::Staking { ops, .. } => ops.len(),
        _ => 1,
    }
}

fn cmd_replay(path: &str) -> i32 {
    let s = match std::fs::read_to_string(path) {
        Ok(s) => s,
        Err(e) => {
            eprintln!("cannot read {}: {}", path, e);
            return 2;
        }
    };
    let v: Value = match serde_json::from_str(&s) {
        Ok(v) => v,
        Err(e) => {
            eprintln!("bad replay file: {}", e);
            return 2;
        }
    };
    let fl = v["flavour"].as_str().unwrap_or("osmosis");
    if fl != flavour() {
        if let Some(sib) = sibling_exe() {
            let st = std::process::Command::new(sib).arg("replay").arg(path).status();
            return st.ok().and_then(|s| s.code()).unwrap_or(2);
        }
        eprintln!("replay needs the {} build", fl);
        return 2;
    }
    let prop = v["property"].as_str().unwrap_or("").to_string();
    let clause = v["clause"].as_str().unwrap_or("").to_string();
    let case: Case = match serde_json::from_value(v["case"].clone()) {
        Ok(c) => c,
        Err(e) => {
            eprintln!("bad case: {}", e);
            return 2;
        }
    };
    let (known, _) = load_known();
    if prop == "C19" && clause == "builds_behave_identically" {
        return replay_differential(path, &case);
    }
    let ev = eval_case(&case, &prop, &known);
    match first_matching(&ev, &prop, Some(&clause)) {
        Some(v) => {
            println!("step {} [{} {}] {}", v.step, v.prop, v.clause, v.msg);
            println!("VIOLATION property={} replay={}", prop, path);
            1
        }
        None => {
            println!("not reproduced: {} {}", prop, clause);
            0
        }
    }
}

fn events_of_case(case: &Case) -> Vec<String> {
    let (known, _) = load_known();
    if let Case::Staking { swarm, ops } = case {
        let opts = StakingOpts { force_no_oracle: false, keep_events: true, known: known.clone() };
        let (_, ev) = run_staking(swarm, Some(ops), None, &opts, "C19");
        ev.events
    } else {
        // non-staking cases have no event log: their outcome hash (accept/refuse decisions) stands in for it
        let ev = eval_case(case, "C19", &known);
        vec![format!("case outcome hash {}", ev.hash)]
    }
}

fn replay_differential(path: &str, case: &Case) -> i32 {
    let mine = events_of_case(case);
    let sib = match sibling_exe() {
        Some(s) => s,
        None => {
            eprintln!("sibling build not found");
            return 2;
        }
    };
    let out = match std::process::Command::new(sib).arg("events").arg(path).output() {
        Ok(o) => o,
        Err(e) => {
            eprintln!("sibling failed: {}", e);
            return 2;
        }
    };
    let theirs: Vec<String> = String::from_utf8_lossy(&out.stdout).lines().map(|l| l.to_string()).collect();
    for i in 0..mine.len().max(theirs.len()) {
        let a = mine.get(i).cloned().unwrap_or_else(|| "<end>".into());
        let b = theirs.get(i).cloned().unwrap_or_else(|| "<end>".into());
        if a != b {
            println!("builds diverge at event {}:\n  {}: {}\n  other: {}", i, flavour(), a, b);
            println!("VIOLATION property=C19 replay={}", path);
            return 1;
        }
    }
    println!("not reproduced: builds agree");
    0
}

fn cmd_check(args: &[String]) -> i32 {
    let prop = args[0].clone();
    let mut tier = std::env::var("VERIF_TIER").unwrap_or_else(|_| "quick".into());
    let mut runs: Option<u64> = None;
    let mut workers = std::thread::available_parallelism().map(|n| n.get()).unwrap_or(8).min(16);
    let mut part: Option<String> = None;
    let mut i = 1;
    while i < args.len() {
        match args[i].as_str() {
            "--tier" => {
                tier = args[i + 1].clone();
                i += 1;
            }
            "--runs" => {
                runs = args[i + 1].parse().ok();
                i += 1;
            }
            "--workers" => {
                workers = args[i + 1].parse().unwrap_or(workers);
                i += 1;
            }
            "--part" => {
                part = Some(args[i + 1].clone());
                i += 1;
            }
            _ => {}
        }
        i += 1;
    }
    if tier != "thorough" {
        tier = "quick".into();
    } else {
        // read by the swarm generator (and inherited by the sibling build's process)
        std::env::set_var("MWSIM_LONG", "1");
    }
    let seed = verif_seed();
    let (known, listed) = load_known();
    let t0 = std::time::Instant::now();
    let both_builds = ["C01", "C03", "C16"].contains(&prop.as_str());
    let mut n = runs.unwrap_or_else(|| budget(&prop, &tier));
    if both_builds && runs.is_none() {
        n /= 2; // the other half runs on the sibling build
    }
    println!("mwsim check {} tier={} VERIF_SEED={} flavour={} runs={} workers={}", prop, tier, seed, flavour(), n, workers);

    let evidence_path = match &part {
        Some(p) => p.clone(),
        None => format!("{}/{}.json", std::env::var("MWSIM_EVIDENCE_DIR").unwrap_or_else(|_| "/verif/evidence".into()), prop),
    };

    // C19: differential against the sibling build
    let per_run = Mutex::new(BTreeMap::new());
    let differential = prop == "C19" && part.is_none();
    let keep_events = prop == "C19";
    let (t, found) = explore(&prop, seed, n, workers, &known, keep_events, if keep_events { Some(&per_run) } else { None });
    let mut extra = json!({});
    let mut found = found;
    if differential && found.is_none() {
        let sib = match sibling_exe() {
            Some(s) => s,
            None => {
                eprintln!("HARNESS ERROR: sibling (miniwasm) build not found");
                return 2;
            }
        };
        let out = std::process::Command::new(&sib).args(["trace", "C19", "0", &n.to_string()]).env("VERIF_SEED", seed.to_string()).output();
        let out = match out {
            Ok(o) if o.status.success() => o,
            _ => {
                eprintln!("HARNESS ERROR: sibling trace failed");
                return 2;
            }
        };
        let mine = per_run.lock().unwrap().clone();
        let mut compared = 0u64;
        let mut first_diff: Option<u64> = None;
        for line in String::from_utf8_lossy(&out.stdout).lines() {
            let p: Vec<&str> = line.split_whitespace().collect();
            if p.len() != 3 {
                continue;
            }
            let idx: u64 = p[0].parse().unwrap_or(u64::MAX);
            let h: u64 = p[1].parse().unwrap_or(0);
            let sv = p[2] == "1";
            if let Some((mh, _)) = mine.get(&idx) {
                compared += 1;
                if (*mh != h || sv) && first_diff.map(|d| idx < d).unwrap_or(true) {
                    first_diff = Some(idx);
                }
            }
        }
        if compared != n {
            eprintln!("HARNESS ERROR: sibling reported {} runs, expected {}", compared, n);
            return 2;
        }
        extra = json!({"differential_runs_compared": compared, "build_flavours": ["osmosis", "miniwasm"]});
        if let Some(idx) = first_diff {
            // C19 seeds are flavour-independent (see run_seed_c19), regenerate the case
            let (case, _) = gen_case(&prop, seed, idx, &known, true);
            found = Some(Found { idx, case, viol: engine::Violation { stop: true, prop: "C19", clause: "builds_behave_identically", step: 0, msg: "normalised event logs of the two builds differ".into() } });
        }
    }

    let mut code = 0;
    let mut violations = 0;
    if let Some(f) = &found {
        violations = 1;
        let min = if f.viol.clause == "builds_behave_identically" { f.case.clone() } else { minimise(&f.case, &prop, f.viol.clause, &known) };
        let path = write_replay(&prop, seed, f, &min, case_len(&f.case));
        // confirm in a fresh process
        let me = std::env::current_exe().unwrap();
        let st = std::process::Command::new(me).arg("replay").arg(&path).output();
        let confirmed = st.as_ref().map(|o| o.status.code() == Some(1)).unwrap_or(false);
        if !confirmed {
            eprintln!("HARNESS ERROR: violation [{} {}] {} did not reproduce from {}", f.viol.prop, f.viol.clause, f.viol.msg, path);
            if let Ok(o) = st {
                eprintln!("{}", String::from_utf8_lossy(&o.stdout));
            }
            return 2;
        }
        println!("run {} step {} [{} {}] {}", f.idx, f.viol.step, f.viol.prop, f.viol.clause, f.viol.msg);
        println!("minimised from {} to {} operations", case_len(&f.case), case_len(&min));
        println!("VIOLATION property={} replay={}", prop, path);
        code = 1;
    }

    // second half on the sibling build
    let mut merged = t;
    if both_builds && part.is_none() && code == 0 {
        if let Some(sib) = sibling_exe() {
            let part_path = format!("{}.part-{}", evidence_path, if flavour() == "osmosis" { "miniwasm" } else { "osmosis" });
            let st = std::process::Command::new(&sib).args(["check", &prop, "--tier", &tier, "--runs", &n.to_string(), "--workers", &workers.to_string(), "--part", &part_path]).env("VERIF_SEED", seed.to_string()).status();
            match st.ok().and_then(|s| s.code()) {
                Some(0) => {}
                Some(1) => {
                    code = 1;
                    violations = 1;
                }
                _ => {
                    eprintln!("HARNESS ERROR: sibling check failed");
                    return 2;
                }
            }
            if let Ok(s) = std::fs::read_to_string(&part_path) {
                if let Ok(v) = serde_json::from_str::<Value>(&s) {
                    let c = &v["coverage"];
                    merged.evaluations += c["evaluations"].as_u64().unwrap_or(0);
                    extra = json!({
                        "build_flavours": ["osmosis", "miniwasm"],
                        "sibling_build": {"evaluations": c["evaluations"], "distinct_nontrivial": c["distinct_nontrivial"], "fault_kinds_fired": c["fault_kinds_fired"], "rare_condition_probes": c["rare_condition_probes"], "operations_executed": c["operations_executed"], "simulated_seconds": c["simulated_seconds"]},
                        "distinct_nontrivial_note": "distinct_nontrivial counts this build's runs only; the sibling build's count is listed under sibling_build",
                    });
                }
                let _ = std::fs::remove_file(&part_path);
            }
        } else {
            eprintln!("HARNESS ERROR: sibling (miniwasm) build not found");
            return 2;
        }
    }

    let wall = t0.elapsed().as_secs_f64();
    write_evidence(&evidence_path, &prop, &tier, seed, &merged, wall, violations, extra);
    if part.is_none() {
        for (p, what) in &listed {
            if *p == prop {
                let exercised = merged.stats.known.iter().any(|(k, _)| k.starts_with(p.as_str()));
                println!("KNOWN-FINDING: property={} {}{}", p, what, if exercised { "" } else { " (not exercised in this run)" });
            }
        }
        println!("{} {}: {} runs, {} distinct non-trivial, {:.1}s", prop, if code == 0 { "held" } else { "VIOLATED" }, merged.evaluations, merged.nontrivial_hashes.len(), wall);
    }
    code
}

fn cmd_trace(args: &[String]) -> i32 {
    let prop = args[0].clone();
    let from: u64 = args[1].parse().unwrap_or(0);
    let to: u64 = args[2].parse().unwrap_or(0);
    let seed = verif_seed();
    let (known, _) = load_known();
    let per_run = Mutex::new(BTreeMap::new());
    let workers = std::thread::available_parallelism().map(|n| n.get()).unwrap_or(8).min(16);
    let workers = std::env::var("MWSIM_WORKERS").ok().and_then(|s| s.parse().ok()).unwrap_or(workers);
    // explore() always starts at 0; for traces that is what we want (from is normally 0)
    let _ = from;
    let keep_events = true;
    let per = {
        let totals = explore_all(&prop, seed, to, workers, &known, keep_events, &per_run);
        let _ = totals;
        per_run.into_inner().unwrap()
    };
    for (idx, (h, v)) in per {
        println!("{} {} {}", idx, h, if v { 1 } else { 0 });
    }
    0
}

/// like explore but never stops early
fn explore_all(prop: &str, seed: u64, runs: u64, workers: usize, known: &Known, keep_events: bool, per_run: &Mutex<BTreeMap<u64, (u64, bool)>>) {
    let next = AtomicU64::new(0);
    std::thread::scope(|sc| {
        for _ in 0..workers {
            sc.spawn(|| loop {
                let idx = next.fetch_add(1, Ordering::SeqCst);
                if idx >= runs {
                    break;
                }
                let (_, ev) = gen_case(prop, seed, idx, known, keep_events);
                let target = first_matching(&ev, prop, None);
                per_run.lock().unwrap().insert(idx, (events_hash(&ev), target.is_some()));
            });
        }
    });
}

fn cmd_dump(args: &[String]) -> i32 {
    let prop = args[0].clone();
    let idx: u64 = args[1].parse().unwrap_or(0);
    let (known, _) = load_known();
    let (case, ev) = gen_case(&prop, verif_seed(), idx, &known, true);
    println!("{}", serde_json::to_string_pretty(&case).unwrap());
    for l in &ev.events {
        println!("{}", l);
    }
    for v in &ev.viol {
        println!("VIOL step {} [{} {}] {}", v.step, v.prop, v.clause, v.msg);
    }
    println!("stats: ops={} txs={} ok={} faults={:?} probes={:?}", ev.stats.ops, ev.stats.txs, ev.stats.tx_ok, ev.stats.faults, ev.stats.probes);
    0
}

fn main() {
    host::install_panic_hook();
    let args: Vec<String> = std::env::args().skip(1).collect();
    if args.is_empty() {
        eprintln!("usage: mwsim check|replay|trace|dump|events ...");
        std::process::exit(2);
    }
    let code = match std::panic::catch_unwind(|| run_cli(&args)) {
        Ok(c) => c,
        Err(_) => {
            eprintln!("HARNESS ERROR: the simulator itself panicked");
            2
        }
    };
    std::process::exit(code);
}

fn run_cli(args: &[String]) -> i32 {
    match args[0].as_str() {
        "check" if args.len() >= 2 => cmd_check(&args[1..]),
        "replay" if args.len() >= 2 => cmd_replay(&args[1]),
        "trace" if args.len() >= 4 => cmd_trace(&args[1..]),
        "dump" if args.len() >= 3 => cmd_dump(&args[1..]),
        "explain" if args.len() >= 2 => {
            // every violation of every property along a recorded case, with the event log
            let s = std::fs::read_to_string(&args[1]).unwrap_or_default();
            let v: Value = serde_json::from_str(&s).unwrap_or(Value::Null);
            match serde_json::from_value::<Case>(v["case"].clone()) {
                Ok(Case::Staking { swarm, ops }) => {
                    let (known, _) = load_known();
                    let opts = StakingOpts { force_no_oracle: false, keep_events: true, known };
                    let (_, ev) = run_staking(&swarm, Some(&ops), None, &opts, v["property"].as_str().unwrap_or(""));
                    for l in &ev.events {
                        println!("{}", l);
                    }
                    for x in &ev.viol {
                        println!("VIOL step {} [{} {}] stop={} {}", x.step, x.prop, x.clause, x.stop, x.msg);
                    }
                    0
                }
                Ok(c) => {
                    let (known, _) = load_known();
                    let ev = eval_case(&c, "", &known);
                    for x in &ev.viol {
                        println!("VIOL step {} [{} {}] {}", x.step, x.prop, x.clause, x.msg);
                    }
                    0
                }
                Err(_) => 2,
            }
        }
        "events" if args.len() >= 2 => {
            let s = std::fs::read_to_string(&args[1]).unwrap_or_default();
            let v: Value = serde_json::from_str(&s).unwrap_or(Value::Null);
            match serde_json::from_value::<Case>(v["case"].clone()) {
                Ok(c) => {
                    for l in events_of_case(&c) {
                        println!("{}", l);
                    }
                    0
                }
                Err(_) => 2,
            }
        }
        _ => {
            eprintln!("bad arguments");
            2
        }
    }
}
