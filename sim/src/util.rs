//! Small self-contained utilities: PRNG, bech32, 256-bit arithmetic, protobuf reader/writer.
//! All of these are written independently of the code under test, so they can serve as oracles.

use sha2::{Digest, Sha256};

// ------------------------------------------------------------------------------------------------
// PRNG: xoshiro256** seeded with splitmix64. One stream per run; nothing else is random.
// ------------------------------------------------------------------------------------------------

#[derive(Clone, Debug)]
pub struct Rng {
    s: [u64; 4],
}

pub fn splitmix64(x: &mut u64) -> u64 {
    *x = x.wrapping_add(0x9E3779B97F4A7C15);
    let mut z = *x;
    z = (z ^ (z >> 30)).wrapping_mul(0xBF58476D1CE4E5B9);
    z = (z ^ (z >> 27)).wrapping_mul(0x94D049BB133111EB);
    z ^ (z >> 31)
}

pub fn mix3(a: u64, b: u64, c: u64) -> u64 {
    let mut x = a ^ 0x6a09e667f3bcc908;
    let mut r = splitmix64(&mut x);
    x ^= b.wrapping_mul(0x9E3779B97F4A7C15);
    r ^= splitmix64(&mut x);
    x ^= c.wrapping_mul(0xC2B2AE3D27D4EB4F);
    r ^= splitmix64(&mut x);
    splitmix64(&mut (r ^ x))
}

impl Rng {
    pub fn new(seed: u64) -> Rng {
        let mut x = seed;
        let s = [
            splitmix64(&mut x),
            splitmix64(&mut x),
            splitmix64(&mut x),
            splitmix64(&mut x),
        ];
        Rng { s }
    }
    pub fn next_u64(&mut self) -> u64 {
        let result = self.s[1].wrapping_mul(5).rotate_left(7).wrapping_mul(9);
        let t = self.s[1] << 17;
        self.s[2] ^= self.s[0];
        self.s[3] ^= self.s[1];
        self.s[1] ^= self.s[2];
        self.s[0] ^= self.s[3];
        self.s[2] ^= t;
        self.s[3] = self.s[3].rotate_left(45);
        result
    }
    /// uniform in [0, n)  (n > 0)
    pub fn below(&mut self, n: u64) -> u64 {
        if n <= 1 {
            return 0;
        }
        // multiply-shift; bias negligible for our n
        ((self.next_u64() as u128 * n as u128) >> 64) as u64
    }
    pub fn range(&mut self, lo: u64, hi_incl: u64) -> u64 {
        lo + self.below(hi_incl - lo + 1)
    }
    pub fn chance(&mut self, num: u64, den: u64) -> bool {
        self.below(den) < num
    }
    pub fn pick<'a, T>(&mut self, xs: &'a [T]) -> &'a T {
        &xs[self.below(xs.len() as u64) as usize]
    }
    pub fn u128(&mut self) -> u128 {
        ((self.next_u64() as u128) << 64) | self.next_u64() as u128
    }
    pub fn below128(&mut self, n: u128) -> u128 {
        if n <= 1 {
            return 0;
        }
        self.u128() % n
    }
    /// weighted choice: returns index
    pub fn weighted(&mut self, w: &[u32]) -> usize {
        let tot: u64 = w.iter().map(|x| *x as u64).sum();
        if tot == 0 {
            return 0;
        }
        let mut r = self.below(tot);
        for (i, x) in w.iter().enumerate() {
            if r < *x as u64 {
                return i;
            }
            r -= *x as u64;
        }
        w.len() - 1
    }
    pub fn bytes(&mut self, n: usize) -> Vec<u8> {
        (0..n).map(|_| self.next_u64() as u8).collect()
    }
}

// ------------------------------------------------------------------------------------------------
// FNV-1a 64 for trace hashing (deterministic, no std RandomState)
// ------------------------------------------------------------------------------------------------

#[derive(Clone, Copy, Debug)]
pub struct Fnv(pub u64);
impl Default for Fnv {
    fn default() -> Self {
        Fnv(0xcbf29ce484222325)
    }
}
impl Fnv {
    pub fn write(&mut self, b: &[u8]) {
        for x in b {
            self.0 ^= *x as u64;
            self.0 = self.0.wrapping_mul(0x100000001b3);
        }
    }
    pub fn str(&mut self, s: &str) {
        self.write(s.as_bytes());
        self.write(&[0xff]);
    }
    pub fn u64(&mut self, v: u64) {
        self.write(&v.to_le_bytes());
    }
    pub fn u128(&mut self, v: u128) {
        self.write(&v.to_le_bytes());
    }
}

// ------------------------------------------------------------------------------------------------
// bech32 (BIP-173) and bech32m (BIP-350), own implementation
// ------------------------------------------------------------------------------------------------

const CHARSET: &[u8; 32] = b"qpzry9x8gf2tvdw0s3jn54khce6mua7l";
const GEN: [u32; 5] = [0x3b6a57b2, 0x26508e6d, 0x1ea119fa, 0x3d4233dd, 0x2a1462b3];

#[derive(Clone, Copy, Debug, PartialEq, Eq)]
pub enum B32Variant {
    Bech32,
    Bech32m,
}

fn polymod(values: &[u8]) -> u32 {
    let mut chk: u32 = 1;
    for v in values {
        let b = chk >> 25;
        chk = ((chk & 0x1ffffff) << 5) ^ (*v as u32);
        for (i, g) in GEN.iter().enumerate() {
            if (b >> i) & 1 == 1 {
                chk ^= g;
            }
        }
    }
    chk
}

fn hrp_expand(hrp: &str) -> Vec<u8> {
    let mut v: Vec<u8> = hrp.bytes().map(|b| b >> 5).collect();
    v.push(0);
    v.extend(hrp.bytes().map(|b| b & 31));
    v
}

fn convert_bits(data: &[u8], from: u32, to: u32, pad: bool) -> Option<Vec<u8>> {
    let mut acc: u32 = 0;
    let mut bits: u32 = 0;
    let mut ret = Vec::new();
    let maxv: u32 = (1 << to) - 1;
    for v in data {
        let v = *v as u32;
        if (v >> from) != 0 {
            return None;
        }
        acc = (acc << from) | v;
        bits += from;
        while bits >= to {
            bits -= to;
            ret.push(((acc >> bits) & maxv) as u8);
        }
    }
    if pad {
        if bits > 0 {
            ret.push(((acc << (to - bits)) & maxv) as u8);
        }
    } else if bits >= from || ((acc << (to - bits)) & maxv) != 0 {
        return None;
    }
    Some(ret)
}

pub fn b32_encode(hrp: &str, data: &[u8]) -> String {
    b32_encode_variant(hrp, data, B32Variant::Bech32)
}

pub fn b32_encode_variant(hrp: &str, data: &[u8], variant: B32Variant) -> String {
    let d5 = convert_bits(data, 8, 5, true).unwrap();
    let mut values = hrp_expand(hrp);
    values.extend(&d5);
    values.extend(&[0u8; 6]);
    let c = match variant {
        B32Variant::Bech32 => 1,
        B32Variant::Bech32m => 0x2bc830a3,
    };
    let pm = polymod(&values) ^ c;
    let mut out = String::with_capacity(hrp.len() + 1 + d5.len() + 6);
    out.push_str(hrp);
    out.push('1');
    for d in &d5 {
        out.push(CHARSET[*d as usize] as char);
    }
    for i in 0..6 {
        out.push(CHARSET[((pm >> (5 * (5 - i))) & 31) as usize] as char);
    }
    out
}

/// Decodes per BIP-173: returns (lower-cased hrp, data bytes, variant). Rejects mixed case, bad chars,
/// bad checksum, bad padding. No overall length limit (Cosmos addresses with long prefixes exceed 90).
pub fn b32_decode(s: &str) -> Option<(String, Vec<u8>, B32Variant)> {
    if !s.is_ascii() {
        return None;
    }
    let has_lower = s.bytes().any(|b| b.is_ascii_lowercase());
    let has_upper = s.bytes().any(|b| b.is_ascii_uppercase());
    if has_lower && has_upper {
        return None;
    }
    let s = s.to_ascii_lowercase();
    let pos = s.rfind('1')?;
    if pos < 1 || pos + 7 > s.len() {
        return None;
    }
    let hrp = &s[..pos];
    if hrp.len() > 83 || hrp.bytes().any(|b| !(33..=126).contains(&b)) {
        return None;
    }
    let mut d5 = Vec::new();
    for c in s[pos + 1..].bytes() {
        let idx = CHARSET.iter().position(|x| *x == c)?;
        d5.push(idx as u8);
    }
    let mut values = hrp_expand(hrp);
    values.extend(&d5);
    let pm = polymod(&values);
    let variant = if pm == 1 {
        B32Variant::Bech32
    } else if pm == 0x2bc830a3 {
        B32Variant::Bech32m
    } else {
        return None;
    };
    let data = convert_bits(&d5[..d5.len() - 6], 5, 8, false)?;
    Some((hrp.to_string(), data, variant))
}

/// The Osmosis ibc-hooks intermediate sender, written from the upstream specification
/// (x/ibc-hooks/keeper: DeriveIntermediateSender; address.Hash(typ,key)=sha256(sha256(typ)||key)).
pub fn hooks_intermediate_sender(dest_channel: &str, original_sender: &str, prefix: &str) -> String {
    let th = Sha256::digest(b"ibc-wasm-hook-intermediary");
    let mut h = Sha256::new();
    h.update(th);
    h.update(format!("{}/{}", dest_channel, original_sender).as_bytes());
    let out = h.finalize();
    b32_encode(prefix, &out)
}

// ------------------------------------------------------------------------------------------------
// 256-bit helpers
// ------------------------------------------------------------------------------------------------

/// full 128x128 -> 256 multiply, returns (hi, lo)
pub fn mul_wide(a: u128, b: u128) -> (u128, u128) {
    let (a1, a0) = (a >> 64, a & 0xffff_ffff_ffff_ffff);
    let (b1, b0) = (b >> 64, b & 0xffff_ffff_ffff_ffff);
    let p00 = a0 * b0;
    let p01 = a0 * b1;
    let p10 = a1 * b0;
    let p11 = a1 * b1;
    let mid = (p00 >> 64) + (p01 & 0xffff_ffff_ffff_ffff) + (p10 & 0xffff_ffff_ffff_ffff);
    let lo = (p00 & 0xffff_ffff_ffff_ffff) | (mid << 64);
    let hi = p11 + (p01 >> 64) + (p10 >> 64) + (mid >> 64);
    (hi, lo)
}

/// floor(a*b/c); None when c == 0 or the result does not fit in 128 bits
pub fn mul_div(a: u128, b: u128, c: u128) -> Option<u128> {
    if c == 0 {
        return None;
    }
    let (hi, lo) = mul_wide(a, b);
    if hi >= c {
        return None; // quotient >= 2^128
    }
    // long division of (hi,lo) by c, bit by bit; remainder < c <= 2^128-1 fits with carry handling
    let mut rem: u128 = hi;
    let mut q: u128 = 0;
    for i in (0..128).rev() {
        let carry = rem >> 127;
        rem = (rem << 1) | ((lo >> i) & 1);
        q <<= 1;
        if carry == 1 || rem >= c {
            rem = rem.wrapping_sub(c);
            q |= 1;
        }
    }
    Some(q)
}

/// compare a*b with c*d
pub fn cmp_prod(a: u128, b: u128, c: u128, d: u128) -> std::cmp::Ordering {
    mul_wide(a, b).cmp(&mul_wide(c, d))
}

/// 18-digit fixed point decimal string of num/den as cosmwasm Decimal prints it; None if not representable
pub fn decimal18(num: u128, den: u128) -> Option<String> {
    let atomics = mul_div(num, 1_000_000_000_000_000_000u128, den)?;
    let whole = atomics / 1_000_000_000_000_000_000u128;
    let frac = atomics % 1_000_000_000_000_000_000u128;
    if frac == 0 {
        Some(format!("{}", whole))
    } else {
        let f = format!("{:018}", frac);
        Some(format!("{}.{}", whole, f.trim_end_matches('0')))
    }
}

// ------------------------------------------------------------------------------------------------
// Protobuf: minimal reader and writer
// ------------------------------------------------------------------------------------------------

#[derive(Clone, Debug, PartialEq, Eq)]
pub enum PbVal {
    Varint(u64),
    Len(Vec<u8>),
    Fixed64(u64),
    Fixed32(u32),
}

#[derive(Clone, Debug, PartialEq, Eq)]
pub struct PbField {
    pub no: u32,
    pub val: PbVal,
}

fn read_varint(b: &[u8], pos: &mut usize) -> Option<u64> {
    let mut r: u64 = 0;
    let mut shift = 0;
    loop {
        let byte = *b.get(*pos)?;
        *pos += 1;
        if shift >= 64 {
            return None;
        }
        r |= ((byte & 0x7f) as u64) << shift;
        if byte & 0x80 == 0 {
            return Some(r);
        }
        shift += 7;
    }
}

pub fn pb_parse(b: &[u8]) -> Option<Vec<PbField>> {
    let mut pos = 0;
    let mut out = Vec::new();
    while pos < b.len() {
        let key = read_varint(b, &mut pos)?;
        let no = (key >> 3) as u32;
        if no == 0 {
            return None;
        }
        let val = match key & 7 {
            0 => PbVal::Varint(read_varint(b, &mut pos)?),
            1 => {
                let s = b.get(pos..pos + 8)?;
                pos += 8;
                PbVal::Fixed64(u64::from_le_bytes(s.try_into().ok()?))
            }
            2 => {
                let n = read_varint(b, &mut pos)? as usize;
                let s = b.get(pos..pos.checked_add(n)?)?;
                pos += n;
                PbVal::Len(s.to_vec())
            }
            5 => {
                let s = b.get(pos..pos + 4)?;
                pos += 4;
                PbVal::Fixed32(u32::from_le_bytes(s.try_into().ok()?))
            }
            _ => return None,
        };
        out.push(PbField { no, val });
    }
    Some(out)
}

pub fn write_varint(out: &mut Vec<u8>, mut v: u64) {
    while v >= 0x80 {
        out.push((v as u8) | 0x80);
        v >>= 7;
    }
    out.push(v as u8);
}

pub fn pb_encode(fields: &[PbField]) -> Vec<u8> {
    let mut out = Vec::new();
    for f in fields {
        match &f.val {
            PbVal::Varint(v) => {
                write_varint(&mut out, (f.no as u64) << 3);
                write_varint(&mut out, *v);
            }
            PbVal::Fixed64(v) => {
                write_varint(&mut out, ((f.no as u64) << 3) | 1);
                out.extend(v.to_le_bytes());
            }
            PbVal::Len(b) => {
                write_varint(&mut out, ((f.no as u64) << 3) | 2);
                write_varint(&mut out, b.len() as u64);
                out.extend(b);
            }
            PbVal::Fixed32(v) => {
                write_varint(&mut out, ((f.no as u64) << 3) | 5);
                out.extend(v.to_le_bytes());
            }
        }
    }
    out
}

/// A decoded message view with canonical-form checks against a schema:
/// schema = list of (field number, kind, repeated).
#[derive(Clone, Copy, PartialEq, Eq, Debug)]
pub enum PbKind {
    Str,
    Bytes,
    Msg,
    U64,
}

pub struct PbMsg {
    pub fields: Vec<PbField>,
}

impl PbMsg {
    /// Parse and verify canonical proto3 encoding w.r.t. the schema: only known fields, correct wire
    /// types, ascending field numbers (repeated fields contiguous), no explicitly-encoded default
    /// scalars, minimal varints (checked by re-encoding).
    pub fn parse_canonical(b: &[u8], schema: &[(u32, PbKind, bool)]) -> Result<PbMsg, String> {
        let fields = pb_parse(b).ok_or_else(|| "malformed protobuf".to_string())?;
        if pb_encode(&fields) != b {
            return Err("non-canonical protobuf (re-encoding differs)".into());
        }
        let mut last = 0u32;
        for f in &fields {
            let sch = schema
                .iter()
                .find(|s| s.0 == f.no)
                .ok_or_else(|| format!("unknown field {}", f.no))?;
            if f.no < last {
                return Err(format!("field {} out of order", f.no));
            }
            if f.no == last && !sch.2 {
                return Err(format!("field {} repeated", f.no));
            }
            last = f.no;
            match (sch.1, &f.val) {
                (PbKind::Str, PbVal::Len(v)) => {
                    if std::str::from_utf8(v).is_err() {
                        return Err(format!("field {} not utf8", f.no));
                    }
                    if v.is_empty() && !sch.2 {
                        return Err(format!("field {} default value encoded", f.no));
                    }
                }
                (PbKind::Bytes, PbVal::Len(v)) => {
                    if v.is_empty() && !sch.2 {
                        return Err(format!("field {} default value encoded", f.no));
                    }
                }
                (PbKind::Msg, PbVal::Len(_)) => {}
                (PbKind::U64, PbVal::Varint(v)) => {
                    if *v == 0 && !sch.2 {
                        return Err(format!("field {} default value encoded", f.no));
                    }
                }
                _ => return Err(format!("field {} wrong wire type", f.no)),
            }
        }
        Ok(PbMsg { fields })
    }
    pub fn str(&self, no: u32) -> String {
        for f in &self.fields {
            if f.no == no {
                if let PbVal::Len(v) = &f.val {
                    return String::from_utf8_lossy(v).to_string();
                }
            }
        }
        String::new()
    }
    pub fn bytes(&self, no: u32) -> Vec<u8> {
        for f in &self.fields {
            if f.no == no {
                if let PbVal::Len(v) = &f.val {
                    return v.clone();
                }
            }
        }
        Vec::new()
    }
    pub fn has(&self, no: u32) -> bool {
        self.fields.iter().any(|f| f.no == no)
    }
    pub fn u64(&self, no: u32) -> u64 {
        for f in &self.fields {
            if f.no == no {
                if let PbVal::Varint(v) = &f.val {
                    return *v;
                }
            }
        }
        0
    }
    pub fn all_bytes(&self, no: u32) -> Vec<Vec<u8>> {
        self.fields
            .iter()
            .filter(|f| f.no == no)
            .filter_map(|f| match &f.val {
                PbVal::Len(v) => Some(v.clone()),
                _ => None,
            })
            .collect()
    }
}

pub const COIN_SCHEMA: &[(u32, PbKind, bool)] = &[(1, PbKind::Str, false), (2, PbKind::Str, false)];

/// decode a cosmos.base.v1beta1.Coin -> (denom, amount as u128)
pub fn pb_coin(b: &[u8]) -> Result<(String, u128), String> {
    let m = PbMsg::parse_canonical(b, COIN_SCHEMA)?;
    let amt = m.str(2);
    // sdk.Int string: decimal digits, no sign, no leading '+'
    if amt.is_empty() || !amt.bytes().all(|c| c.is_ascii_digit()) || (amt.len() > 1 && amt.starts_with('0')) {
        return Err(format!("bad coin amount {:?}", amt));
    }
    let v: u128 = amt.parse().map_err(|_| format!("coin amount overflow {:?}", amt))?;
    Ok((m.str(1), v))
}

pub fn hex(b: &[u8]) -> String {
    b.iter().map(|x| format!("{:02x}", x)).collect()
}

#[cfg(test)]
mod tests {
    use super::*;
    #[test]
    fn bech32_known() {
        // known vector: osmo address from the repository's tests
        let (hrp, data, v) = b32_decode("osmo12z558dm3ew6avgjdj07mfslx80rp9sh8nt7q3w").unwrap();
        assert_eq!(hrp, "osmo");
        assert_eq!(data.len(), 20);
        assert_eq!(v, B32Variant::Bech32);
        assert_eq!(b32_encode("osmo", &data), "osmo12z558dm3ew6avgjdj07mfslx80rp9sh8nt7q3w");
        assert!(b32_decode("osmo12z558dm3ew6avgjdj07mfslx80rp9sh8nt7q3x").is_none());
    }
    #[test]
    fn muldiv() {
        assert_eq!(mul_div(10, 10, 3), Some(33));
        assert_eq!(mul_div(u128::MAX, u128::MAX, u128::MAX), Some(u128::MAX));
        assert_eq!(mul_div(u128::MAX, 2, 1), None);
        assert_eq!(mul_div(1 << 100, 1 << 100, 1 << 100), Some(1 << 100));
        assert_eq!(mul_div(123456789012345678901234567890u128, 987654321098765432109876543210u128, 987654321098765432109876543210u128), Some(123456789012345678901234567890u128));
        assert_eq!(decimal18(1, 3).unwrap(), "0.333333333333333333");
        assert_eq!(decimal18(2, 1).unwrap(), "2");
    }
}
