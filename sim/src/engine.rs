//! The run engine: world + reference model + oracles. `step` executes one operation against the
//! real contracts inside the simulated world, evaluates per-operation refinement clauses and the
//! cross-invariants, and records violations tagged with the property they belong to.

use crate::ops::*;
use crate::util::*;
use crate::world::*;
use serde_json::{json, Value};
use std::collections::{BTreeMap, BTreeSet};

pub const DAY: u64 = 86_400;
pub const WEEK: u64 = 7 * DAY;

#[derive(Clone, Debug, PartialEq)]
pub struct Violation {
    pub prop: &'static str,
    pub clause: &'static str,
    pub step: usize,
    pub msg: String,
    /// true: the reference model can no longer be trusted, the run ends after this step.
    /// false: observational (reality compared with reality), the run continues.
    pub stop: bool,
}

#[derive(Clone, Debug, PartialEq)]
pub struct MBatch {
    pub id: u64,
    pub total: u128,
    pub reqs: BTreeMap<String, u128>,
    /// 0 pending, 1 submitted, 2 received
    pub status: u8,
    pub due: u64,
    pub expected: Option<u128>,
    pub received: Option<u128>,
    pub paid: u128,
}

#[derive(Clone, Debug, PartialEq)]
pub struct MCfg {
    pub batch_period: u64,
    pub unbonding: u64,
    pub min_stake: u128,
    pub fee_rate: u128,
    pub treasury: Option<String>,
    pub oracle: Option<String>,
    pub monitors: Vec<String>,
    pub validators: Vec<String>,
    pub staker: String,
    pub collector: String,
    pub channel: String,
}

#[derive(Clone, Debug, PartialEq)]
pub struct Model {
    pub halted: bool,
    pub n: u128,
    pub l: u128,
    pub fees: u128,
    pub rewards: u128,
    pub batches: BTreeMap<u64, MBatch>,
    pub pending: u64,
    pub admin: String,
    pub former_admins: Vec<String>,
    pub nominee: Option<(String, u64)>,
    pub removed_monitors: Vec<String>,
    pub cfg: MCfg,
    pub swept: u128,
    /// part of `swept` that came from a state the admin's ResumeContract created (the listed known finding)
    pub swept_known: u128,
    /// the current L = 0 < N state was installed by a ResumeContract
    pub ownerless_from_resume: bool,
    pub adj_n: i128,
    pub adj_l: i128,
    /// ground-truth packet ids whose records a recovery removed
    pub recovered: BTreeSet<usize>,
    pub lost_cb: BTreeSet<usize>,
    /// ids of packets whose callback did not reach the contract yet has been force-recovered etc.
    pub reckless: bool,
    /// in-flight transfers the admin re-sent by force: the scheduler makes them fail, and the ledgers treat
    /// them as already refunded (DESIGN 12.3 as built)
    pub doomed: BTreeSet<usize>,
    /// unsolicited deposits (F22) sitting in the contract's account: staked asset, LST. They belong to
    /// nobody's claim; the balance equations of C02 and C03 are read net of them.
    pub donated_ibc: u128,
    pub donated_lst: u128,
}

#[derive(Clone, Debug)]
pub struct ObsBatch {
    pub id: u64,
    pub total: u128,
    pub expected: u128,
    pub received: u128,
    pub count: u64,
    pub next: u64,
    pub status: String,
}

#[derive(Clone, Debug)]
pub struct ObsPkt {
    pub seq: u64,
    pub denom: String,
    pub amount: u128,
    pub receiver: String,
    pub status: String,
}

#[derive(Clone, Debug)]
pub struct Obs {
    pub n: u128,
    pub l: u128,
    pub rate: String,
    pub pending_owner: String,
    pub rewards: u128,
    pub fees: u128,
    pub config: Value,
    pub stopped: bool,
    pub batches: Vec<ObsBatch>,
    pub pending: Option<ObsBatch>,
    pub queue: Vec<ObsPkt>,
    pub reply_queue: usize,
}

#[derive(Clone, Debug, Default)]
pub struct RunStats {
    pub ops: u64,
    pub txs: u64,
    pub tx_ok: u64,
    pub op_kinds: BTreeMap<&'static str, (u64, u64)>,
    pub faults: BTreeMap<&'static str, u64>,
    pub probes: BTreeMap<&'static str, u64>,
    pub pairs: BTreeSet<u64>,
    pub sim_seconds: u64,
    pub known: BTreeMap<&'static str, u64>,
    pub panics_out_of_domain: u64,
}

impl RunStats {
    pub fn probe(&mut self, k: &'static str) {
        *self.probes.entry(k).or_insert(0) += 1;
    }
    pub fn fault(&mut self, k: &'static str) {
        *self.faults.entry(k).or_insert(0) += 1;
    }
    pub fn merge(&mut self, o: &RunStats) {
        self.ops += o.ops;
        self.txs += o.txs;
        self.tx_ok += o.tx_ok;
        self.sim_seconds += o.sim_seconds;
        self.panics_out_of_domain += o.panics_out_of_domain;
        for (k, v) in &o.op_kinds {
            let e = self.op_kinds.entry(k).or_insert((0, 0));
            e.0 += v.0;
            e.1 += v.1;
        }
        for (k, v) in &o.faults {
            *self.faults.entry(k).or_insert(0) += v;
        }
        for (k, v) in &o.probes {
            *self.probes.entry(k).or_insert(0) += v;
        }
        for (k, v) in &o.known {
            *self.known.entry(k).or_insert(0) += v;
        }
        self.pairs.extend(o.pairs.iter().cloned());
    }
}

pub struct Actors {
    pub users: Vec<(String, String)>,
    pub proxies: Vec<String>,
    pub cands: Vec<String>,
    pub mons: Vec<String>,
    pub nstakers: Vec<String>,
    pub ncollectors: Vec<String>,
    pub nothers: Vec<String>,
    pub vals: Vec<String>,
    pub third_prefix_addr: String,
}

pub struct Engine {
    pub w: World,
    pub sw: Swarm,
    pub m: Model,
    pub a: Actors,
    pub viol: Vec<Violation>,
    pub stats: RunStats,
    pub step_no: usize,
    pub trace: Fnv,
    pub obs: Option<Obs>,
    pub last_tx: Option<TxResult>,
    pub status_hist: BTreeMap<u64, (u8, u128)>,
    pub lst: String,
    pub force_no_oracle: bool,
    /// per-step outcome log (ok flag + totals) for paired C15 runs and the C19 differential
    pub outcomes: Vec<(bool, u128, u128)>,
    pub event_log: Vec<String>,
    pub keep_events: bool,
    pub start_ns: u64,
    pub in_domain: bool,
    pub seen_panics: usize,
    pub accepted_hooks: BTreeMap<String, (String, String)>,
    pub totals_prop: &'static str,
    pub known_c02_sweep: bool,
    pub end_run: bool,
    /// first step at which a panic outside the C16 domain happened (C15 twins stop being comparable there)
    pub first_ood_step: Option<usize>,
    /// kind of the previous operation (drives follow-up biases of the generator)
    pub last_kind: &'static str,
    /// C15 pairs every run with a no-oracle twin; oracle-side faults would make the twins diverge by construction
    pub no_oracle_faults: bool,
}

pub fn addr20(prefix: &str, label: &str) -> String {
    b32_encode(prefix, &sha2_of(label)[..20])
}
pub fn addr32(prefix: &str, label: &str) -> String {
    b32_encode(prefix, &sha2_of(label))
}

pub fn u(v: &Value) -> u128 {
    v.as_str().and_then(|s| s.parse().ok()).unwrap_or(0)
}

fn status_code(s: &str) -> u8 {
    match s {
        "pending" => 0,
        "submitted" => 1,
        "received" => 2,
        _ => 9,
    }
}

impl Engine {
    pub fn ibc(&self) -> String {
        self.w.setup.ibc_denom.clone()
    }
    pub fn s_addr(&self) -> String {
        self.w.setup.staking_addr.clone()
    }
    pub fn v(&mut self, prop: &'static str, clause: &'static str, msg: String) {
        self.viol.push(Violation { prop, clause, step: self.step_no, msg, stop: true });
    }
    /// observational violation: recorded once per (property, clause), does not end the run
    pub fn vo(&mut self, prop: &'static str, clause: &'static str, msg: String) {
        if self.viol.iter().any(|v| v.prop == prop && v.clause == clause) {
            return;
        }
        self.viol.push(Violation { prop, clause, step: self.step_no, msg, stop: false });
    }
    pub fn must_stop(&self) -> bool {
        self.viol.iter().any(|v| v.stop)
    }
    pub fn hook_of(&self, native_sender: &str) -> String {
        hooks_intermediate_sender(&self.m.cfg.channel, native_sender, &self.w.setup.proto_prefix)
    }

    pub fn new(sw: Swarm) -> Engine {
        let pp = sw.proto_prefix.clone();
        let np = sw.native_prefix.clone();
        let vp = format!("{}valoper", np);
        let ibc_denom = format!("ibc/{}", hex(&sha2_of("transfer/channel/utia")).to_uppercase());
        let setup = Setup {
            proto_prefix: pp.clone(),
            native_prefix: np.clone(),
            valoper_prefix: vp.clone(),
            channel: format!("channel-{}", sw.channel),
            ibc_denom,
            native_denom: "utia".into(),
            subdenom: "milkTIA".into(),
            staking_addr: addr32(&pp, "staking-contract"),
            treasury_addr: addr32(&pp, "treasury-contract"),
            oracle_addr: addr32(&pp, "oracle-contract"),
            sink_addr: addr32(&pp, "sink-contract"),
        };
        let a = Actors {
            users: (0..8).map(|i| (addr20(&pp, &format!("user{}", i)), addr20(&np, &format!("user{}", i)))).collect(),
            proxies: (0..3).map(|i| addr32(&pp, &format!("proxy{}", i))).collect(),
            cands: (0..4).map(|i| addr20(&pp, &format!("admin{}", i))).collect(),
            mons: (0..4).map(|i| addr20(&pp, &format!("monitor{}", i))).collect(),
            nstakers: (0..3).map(|i| addr20(&np, &format!("staker{}", i))).collect(),
            ncollectors: (0..3).map(|i| addr20(&np, &format!("collector{}", i))).collect(),
            nothers: (0..3).map(|i| addr20(&np, &format!("nother{}", i))).collect(),
            vals: (0..5).map(|i| addr20(&vp, &format!("val{}", i))).collect(),
            third_prefix_addr: addr20("cosmos", "third"),
        };
        let start_ns = sw.start_s * 1_000_000_000;
        let mut w = World::new(setup, start_ns);
        w.st.native.skew_s = sw.skew;
        w.st.tx_index = sw.base_tx_index;
        w.zero_ibc_ok = sw.zero_ibc_ok;
        w.zero_tf_ok = sw.zero_tf_ok;
        w.sub_second = sw.sub_second;
        let lst = format!("factory/{}/{}", w.setup.staking_addr, w.setup.subdenom);
        let cfg = MCfg {
            batch_period: sw.batch_period,
            unbonding: sw.unbonding,
            min_stake: sw.min_stake,
            fee_rate: sw.fee_rate,
            treasury: if sw.treasury { Some(w.setup.treasury_addr.clone()) } else { None },
            oracle: if sw.oracle { Some(w.setup.oracle_addr.clone()) } else { None },
            monitors: if sw.mon_rev { a.mons[..sw.monitors as usize].iter().rev().cloned().collect() } else { a.mons[..sw.monitors as usize].to_vec() },
            validators: a.vals[..2].to_vec(),
            staker: a.nstakers[0].clone(),
            collector: a.ncollectors[0].clone(),
            channel: w.setup.channel.clone(),
        };
        let m = Model {
            halted: true,
            n: 0,
            l: 0,
            fees: 0,
            rewards: 0,
            batches: BTreeMap::new(),
            pending: 1,
            admin: a.cands[0].clone(),
            former_admins: vec![],
            nominee: None,
            removed_monitors: vec![],
            cfg,
            swept: 0,
            swept_known: 0,
            ownerless_from_resume: false,
            adj_n: 0,
            adj_l: 0,
            recovered: BTreeSet::new(),
            lost_cb: BTreeSet::new(),
            reckless: false,
            donated_ibc: 0,
            donated_lst: 0,
            doomed: BTreeSet::new(),
        };
        Engine {
            w,
            sw,
            m,
            a,
            viol: vec![],
            stats: RunStats::default(),
            step_no: 0,
            trace: Fnv::default(),
            obs: None,
            last_tx: None,
            status_hist: BTreeMap::new(),
            lst,
            force_no_oracle: false,
            outcomes: vec![],
            event_log: vec![],
            keep_events: false,
            start_ns,
            in_domain: true,
            seen_panics: 0,
            accepted_hooks: BTreeMap::new(),
            totals_prop: "C04",
            known_c02_sweep: false,
            end_run: false,
            first_ood_step: None,
            last_kind: "",
            no_oracle_faults: false,
        }
    }

    pub fn native_cfg_json(&self, c: &MCfg) -> Value {
        json!({
            "account_address_prefix": self.w.setup.native_prefix,
            "validator_address_prefix": self.w.setup.valoper_prefix,
            "token_denom": self.w.setup.native_denom,
            "validators": c.validators,
            "unbonding_period": c.unbonding,
            "staker_address": c.staker,
            "reward_collector_address": c.collector,
        })
    }
    pub fn protocol_cfg_json(&self, c: &MCfg) -> Value {
        json!({
            "account_address_prefix": self.w.setup.proto_prefix,
            "ibc_token_denom": self.w.setup.ibc_denom,
            "ibc_channel_id": c.channel,
            "minimum_liquid_stake_amount": c.min_stake.to_string(),
            "oracle_address": c.oracle,
        })
    }
    pub fn fee_cfg_json(&self, c: &MCfg) -> Value {
        json!({"dao_treasury_fee": c.fee_rate.to_string(), "treasury_address": c.treasury})
    }

    /// Instantiate both contracts and open for business (resume), as a deployment would.
    pub fn boot(&mut self) {
        if self.force_no_oracle {
            self.m.cfg.oracle = None;
        }
        let c = self.m.cfg.clone();
        let msg = json!({
            "native_chain_config": self.native_cfg_json(&c),
            "protocol_chain_config": self.protocol_cfg_json(&c),
            "protocol_fee_config": self.fee_cfg_json(&c),
            "liquid_stake_token_denom": self.w.setup.subdenom,
            "batch_period": c.batch_period,
            "monitors": c.monitors,
        });
        let admin = self.m.admin.clone();
        let r = self.w.tx_instantiate(Which::Staking, &admin, &msg.to_string());
        self.note_panics();
        if !r.ok {
            let tf = ["tf:", "protobuf", "unknown field", "unknown type url", "wrong wire type", "default value encoded", "out of order", "not utf8"];
            if tf.iter().any(|k| r.err.contains(k)) {
                self.v("C19", "create_denom_accepted_by_target_chain", format!("the target chain's token factory refused the create-denom message of a valid instantiate: {}", r.err));
            } else {
                // No property says which well-formed configurations must be accepted, so a tree that refuses
                // this one is not in violation; the run cannot proceed and is set aside (the explorer turns a
                // majority of such runs into a harness error).
                self.v("SETASIDE", "valid_instantiate_refused", format!("instantiate failed: {}", r.err));
            }
            return;
        }
        // C19: create-denom for the sub-denom
        let creates: Vec<&Effect> = r.effects.iter().filter(|e| matches!(e, Effect::TfCreate { .. })).collect();
        match creates.as_slice() {
            [Effect::TfCreate { sender, subdenom, .. }] if *sender == self.s_addr() && *subdenom == self.w.setup.subdenom => {}
            other => {
                let m = format!("instantiate emitted {:?}", other);
                self.v("C19", "create_denom", m)
            }
        }
        self.m.batches.insert(1, MBatch { id: 1, total: 0, reqs: BTreeMap::new(), status: 0, due: self.w.now_s() + c.batch_period, expected: None, received: None, paid: 0 });
        let tmsg = json!({"admin": admin, "trader": self.a.cands[1], "allowed_swap_routes": []});
        let r2 = self.w.tx_instantiate(Which::Treasury, &admin, &tmsg.to_string());
        if !r2.ok {
            self.v("HARNESS", "boot", format!("treasury instantiate failed: {}", r2.err));
        }
        self.obs = self.observe();
        // C10: a newly instantiated contract is halted
        if let Some(o) = &self.obs {
            if !o.stopped {
                self.v("C10", "starts_halted", "freshly instantiated contract is not halted".into());
            }
        }
    }

    pub fn note_panics(&mut self) {
        while self.seen_panics < self.w.panics.len() {
            let p = self.w.panics[self.seen_panics].clone();
            self.seen_panics += 1;
            if self.in_domain {
                self.v("C16", "panic", format!("{}::{} panicked: {} | input: {}", p.contract, p.entry, p.msg, p.input));
            } else {
                self.stats.panics_out_of_domain += 1;
                if self.first_ood_step.is_none() {
                    self.first_ood_step = Some(self.step_no);
                }
            }
        }
    }

    pub fn q(&mut self, msg: Value) -> Option<Value> {
        let r = self.w.query(Which::Staking, &msg.to_string());
        self.note_panics();
        match r {
            Ok(b) => serde_json::from_slice(&b).ok(),
            Err(_) => None,
        }
    }

    fn parse_batch(b: &Value) -> ObsBatch {
        ObsBatch {
            id: b["id"].as_u64().unwrap_or(0),
            total: u(&b["batch_total_liquid_stake"]),
            expected: u(&b["expected_native_unstaked"]),
            received: u(&b["received_native_unstaked"]),
            count: b["unstake_request_count"].as_u64().unwrap_or(0),
            next: b["next_batch_action_time"].as_str().and_then(|s| s.parse::<u128>().ok()).map(|n| (n / 1_000_000_000) as u64).unwrap_or(0),
            status: b["status"].as_str().unwrap_or("").to_string(),
        }
    }

    pub fn observe(&mut self) -> Option<Obs> {
        let st = self.q(json!({"state": {}}))?;
        let cfg = self.q(json!({"config": {}}))?;
        let bs = self.q(json!({"batches": {}}))?;
        let pb = self.q(json!({"pending_batch": {}}));
        let qu = self.q(json!({"ibc_queue": {}}))?;
        let rq = self.q(json!({"ibc_reply_queue": {}}))?;
        let batches: Vec<ObsBatch> = bs["batches"].as_array()?.iter().map(Self::parse_batch).collect();
        let queue: Vec<ObsPkt> = qu["ibc_queue"]
            .as_array()?
            .iter()
            .map(|p| ObsPkt {
                seq: p["sequence"].as_u64().unwrap_or(0),
                denom: p["amount"]["denom"].as_str().unwrap_or("").to_string(),
                amount: u(&p["amount"]["amount"]),
                receiver: p["receiver"].as_str().unwrap_or("").to_string(),
                status: p["status"].as_str().unwrap_or("").to_string(),
            })
            .collect();
        Some(Obs {
            n: u(&st["total_native_token"]),
            l: u(&st["total_liquid_stake_token"]),
            rate: st["rate"].as_str().unwrap_or("").to_string(),
            pending_owner: st["pending_owner"].as_str().unwrap_or("").to_string(),
            rewards: u(&st["total_reward_amount"]),
            fees: u(&st["total_fees"]),
            stopped: cfg["stopped"].as_bool().unwrap_or(false),
            config: cfg,
            batches,
            pending: pb.as_ref().map(Self::parse_batch),
            queue,
            reply_queue: rq["ibc_queue"].as_array().map(|a| a.len()).unwrap_or(0),
        })
    }

    // --------------------------------------------------------------------------------------------
    // ground-truth ledgers
    // --------------------------------------------------------------------------------------------

    /// refunded to the contract and not yet re-sent, per denom (may be negative = duplication)
    pub fn refunded_not_resent(&self, denom: &str) -> i128 {
        let s = self.s_addr();
        let mut refunded: i128 = 0;
        let mut resent: i128 = 0;
        for p in &self.w.st.packets {
            if p.sender != s || p.denom != denom {
                continue;
            }
            if p.state == PState::Refunded || self.m.doomed.contains(&p.id) {
                refunded += p.amount as i128;
            }
            if p.origin == Origin::Recover {
                resent += p.amount as i128;
            }
        }
        refunded - resent
    }

    pub fn fresh_forwarded(&self) -> u128 {
        let s = self.s_addr();
        let ibc = self.ibc();
        self.w
            .st
            .packets
            .iter()
            .filter(|p| p.sender == s && p.denom == ibc && matches!(p.origin, Origin::Stake | Origin::Rewards))
            .map(|p| p.amount)
            .sum()
    }

    /// total holdings of every native staker account plus inbound transfers from them in flight
    pub fn staker_side(&self) -> u128 {
        let nd = &self.w.setup.native_denom;
        let mut t = 0u128;
        for s in &self.a.nstakers {
            t += self.w.st.native.balance(s, nd);
        }
        for ip in &self.w.st.inpackets {
            if ip.state == InState::InFlight && self.a.nstakers.contains(&ip.sender) {
                t += ip.amount;
            }
        }
        t
    }

    pub fn abstract_state(&self) -> u64 {
        let mut h = Fnv::default();
        h.u64(self.m.halted as u64);
        let rc = if self.m.l == 0 {
            0
        } else {
            match cmp_prod(self.m.n, 1, self.m.l, 1) {
                std::cmp::Ordering::Less => 1,
                std::cmp::Ordering::Equal => 2,
                std::cmp::Ordering::Greater => 3,
            }
        };
        h.u64(rc);
        let pend_empty = self.m.batches.get(&self.m.pending).map(|b| b.total == 0).unwrap_or(true);
        h.u64(pend_empty as u64);
        let sub = self.m.batches.values().filter(|b| b.status == 1).count().min(3);
        let rec = self.m.batches.values().filter(|b| b.status == 2).count().min(3);
        h.u64(sub as u64);
        h.u64(rec as u64);
        let s = self.s_addr();
        let infl = self.w.st.packets.iter().filter(|p| p.sender == s && matches!(p.state, PState::InFlight | PState::RecvOk | PState::RecvErr)).count().min(3);
        let refd = self.w.st.packets.iter().filter(|p| p.sender == s && p.state == PState::Refunded && !self.m.recovered.contains(&p.id)).count().min(3);
        h.u64(infl as u64);
        h.u64(refd as u64);
        h.u64(self.m.cfg.treasury.is_some() as u64);
        h.u64(self.m.cfg.oracle.is_some() as u64);
        h.0
    }

    // --------------------------------------------------------------------------------------------
    // invariants evaluated after every step
    // --------------------------------------------------------------------------------------------

    pub fn invariants(&mut self, pre: &Option<Obs>) {
        let post = match self.observe() {
            Some(o) => o,
            None => {
                if Self::rate_ok(self.m.n, self.m.l) {
                    self.v("C16", "queries_fail", "a standard query failed after the step".into());
                    self.v("C17", "queries_answer", "State / Config / Batches / PendingBatch / IbcQueue / IbcReplyQueue: at least one query failed after the step".into());
                } else {
                    // the totals left the supported rate range (C16 domain): nothing more can be observed
                    self.stats.probe("run_left_rate_domain");
                    self.end_run = true;
                }
                self.obs = None;
                return;
            }
        };
        let s = self.s_addr();
        let ibc = self.ibc();
        let lst = self.lst.clone();

        // ---- C01: N == forwarded toward the staker (delivered, in flight, refunded awaiting re-send)
        //            - set aside - swept (+ resume re-basing)
        let refundable_ibc = self.refunded_not_resent(&ibc);
        let not_refunded: i128 = self
            .w
            .st
            .packets
            .iter()
            .filter(|p| p.sender == s && p.denom == ibc && p.state != PState::Refunded && !self.m.doomed.contains(&p.id))
            .map(|p| p.amount as i128)
            .sum();
        let fresh = not_refunded + refundable_ibc.max(0);
        let exp_sum: i128 = post.batches.iter().filter(|b| b.status != "pending").map(|b| b.expected as i128).sum();
        let lhs = post.n as i128 + exp_sum + self.m.swept as i128;
        let rhs = fresh + self.m.adj_n;
        if lhs != rhs {
            self.vo("C01", "total_backed", format!("State.total_native_token={} + set_aside={} + swept={} != forwarded (delivered+in flight {} + refunded awaiting re-send {}) + resume_adj={}", post.n, exp_sum, self.m.swept, not_refunded, refundable_ibc.max(0), self.m.adj_n));
        }
        // the same with "refunded and awaiting re-send" read from the contract's own records: stake whose
        // refund the contract no longer records as refundable can never reach the staker again
        if self.m.lost_cb.is_empty() && !self.m.reckless {
            let q_ibc: i128 = post.queue.iter().filter(|p| p.denom == ibc && (p.status == "ack_failure" || p.status == "timed_out")).map(|p| p.amount as i128).sum();
            if lhs != not_refunded + q_ibc + self.m.adj_n {
                self.vo("C01", "refunded_stake_is_recorded", format!("State.total_native_token={} + set_aside={} + swept={} != delivered+in flight {} + transfers recorded as refundable {} + resume_adj={} (truly refunded and not re-sent: {})", post.n, exp_sum, self.m.swept, not_refunded, q_ibc, self.m.adj_n, refundable_ibc));
            }
        }
        // honest-operator clause
        if self.sw.honest && !self.m.reckless {
            let staker_side = self.staker_side() as i128;
            let outstanding: i128 = post.batches.iter().filter(|b| b.status == "submitted").map(|b| b.expected as i128).sum();
            let toward: i128 = self
                .w
                .st
                .packets
                .iter()
                .filter(|p| p.sender == s && p.denom == ibc && self.a.nstakers.contains(&p.receiver))
                .map(|p| match p.state {
                    PState::InFlight | PState::RecvErr => p.amount as i128,
                    PState::RecvOk | PState::AckedOk => 0, // already counted in the staker's balance
                    PState::Refunded => 0,
                })
                .sum::<i128>()
                + self.refunded_not_resent(&ibc).max(0);
            let have = staker_side + toward + self.m.adj_n;
            let need = post.n as i128 + outstanding + self.m.swept as i128;
            if have != need {
                self.vo("C01", "operator_backing", format!("staker holdings+in transit {} (+adj {}) != total {} + outstanding batches {} + swept {}", staker_side + toward, self.m.adj_n, post.n, outstanding, self.m.swept));
            }
        }

        // ---- C02: contract balance == owed
        let bal = self.w.st.bank.balance(&s, &ibc) as i128 - self.m.donated_ibc as i128;
        let owed_a: i128 = self.m.batches.values().filter(|b| b.status == 2).map(|b| b.received.unwrap_or(0) as i128 - b.paid as i128).sum();
        let refunded_ibc = self.refunded_not_resent(&ibc);
        // (c) cannot be negative: re-sending more than was refunded takes tokens backing other claims
        let owed = owed_a + post.fees as i128 + refunded_ibc.max(0);
        // only the sweep of a state created by ResumeContract is the listed known finding
        let unbacked = if self.known_c02_sweep { self.m.swept_known as i128 } else { 0 };
        // a reckless forced recovery pays a re-send out of whatever the contract holds: solvency is void from then on
        if self.m.reckless {
            self.stats.probe("conservation_checks_off_after_reckless_recovery");
        } else if bal != owed - unbacked {
            self.vo("C02", "balance_eq_owed", format!("contract holds {} but owes batches {} + fees {} + refundable {} (unbacked swept {})", bal, owed_a, post.fees, refunded_ibc, self.m.swept));
        } else if self.m.swept_known > 0 && self.known_c02_sweep {
            *self.stats.known.entry("C02 ownerless-stake sweep credits total_fees with tokens the contract does not hold").or_insert(0) += 1;
        }
        // the same equation with (c) read from the contract's own records: refunded value that the
        // contract no longer tracks as refundable can never be re-sent
        if self.m.lost_cb.is_empty() && !self.m.reckless {
            let q_ibc: i128 = post.queue.iter().filter(|p| p.denom == ibc && (p.status == "ack_failure" || p.status == "timed_out")).map(|p| p.amount as i128).sum();
            if bal != owed_a + post.fees as i128 + q_ibc - unbacked {
                self.vo("C02", "refundable_value_is_recorded", format!("contract holds {} but unwithdrawn batches {} + fees {} + transfers it records as refundable {} differ (truly refunded and not re-sent: {})", bal, owed_a, post.fees, q_ibc, refunded_ibc));
            }
        }
        if refunded_ibc < 0 && !self.m.reckless {
            self.vo("C07", "resent_more_than_refunded", format!("staked-asset re-sent exceeds refunded by {}", -refunded_ibc));
        }

        // ---- C03: LST supply and contract's own LST balance
        let supply = self.w.st.bank.supply(&lst) as i128;
        if supply != post.l as i128 - self.m.adj_l {
            self.vo("C03", "supply_eq_total", format!("LST supply {} != State.total_liquid_stake_token {} - resume_adj {}", supply, post.l, self.m.adj_l));
        }
        let own_lst = self.w.st.bank.balance(&s, &lst) as i128 - self.m.donated_lst as i128;
        let pend_total = post.pending.as_ref().map(|b| b.total).unwrap_or(0) as i128;
        let refunded_lst = self.refunded_not_resent(&lst);
        if own_lst != pend_total + refunded_lst.max(0) && !self.m.reckless {
            self.vo("C03", "own_lst_balance", format!("contract holds {} LST but pending batch has {} and refundable LST is {}", own_lst, pend_total, refunded_lst));
        }
        if self.m.lost_cb.is_empty() && !self.m.reckless {
            let q_lst: i128 = post.queue.iter().filter(|p| p.denom == lst && (p.status == "ack_failure" || p.status == "timed_out")).map(|p| p.amount as i128).sum();
            if own_lst != pend_total + q_lst {
                self.vo("C03", "refundable_lst_is_recorded", format!("contract holds {} LST but the pending batch has {} and the LST transfers it records as refundable sum to {} (truly refunded and not re-sent: {})", own_lst, pend_total, q_lst, refunded_lst));
            }
        }
        if refunded_lst < 0 && !self.m.reckless {
            self.vo("C07", "resent_more_than_refunded", format!("LST re-sent exceeds refunded by {}", -refunded_lst));
        }

        // ---- C06: batch structure
        let n_pending = post.batches.iter().filter(|b| b.status == "pending").count();
        if n_pending != 1 {
            self.vo("C06", "one_pending", format!("{} pending batches", n_pending));
        }
        for (i, b) in post.batches.iter().enumerate() {
            if b.id != i as u64 + 1 {
                self.vo("C06", "ids_contiguous", format!("batch ids are {:?}", post.batches.iter().map(|b| b.id).collect::<Vec<_>>()));
                break;
            }
        }
        if let (Some(last), Some(p)) = (post.batches.last(), &post.pending) {
            if last.status != "pending" || p.id != last.id {
                self.vo("C06", "pending_is_highest", format!("pending batch {} is not the highest id {}", p.id, last.id));
            }
        }
        for b in &post.batches {
            let code = status_code(&b.status);
            if let Some((prev, exp)) = self.status_hist.get(&b.id).cloned() {
                if code < prev || code > prev + 1 {
                    self.vo("C06", "status_monotone", format!("batch {} moved from status {} to {}", b.id, prev, code));
                }
                if prev >= 1 && b.expected != exp {
                    self.vo("C06", "expected_constant", format!("batch {} expected amount changed {} -> {}", b.id, exp, b.expected));
                }
            }
            self.status_hist.insert(b.id, (code, b.expected));
        }
        // batches agree with the model (C05 composition clauses)
        for b in &post.batches {
            if let Some(mb) = self.m.batches.get(&b.id).cloned() {
                if b.total != mb.total {
                    self.vo("C05", "batch_total_eq_sum", format!("batch {} total {} != sum of requests made {}", b.id, b.total, mb.total));
                }
                if mb.status <= 1 && b.count != mb.reqs.len() as u64 {
                    self.vo("C05", "request_count", format!("batch {} request count {} != requesters {}", b.id, b.count, mb.reqs.len()));
                }
                if mb.status == 2 && mb.paid > mb.received.unwrap_or(0) {
                    self.vo("C05", "payouts_le_received", format!("batch {} paid {} > received {}", b.id, mb.paid, mb.received.unwrap_or(0)));
                }
            }
        }

        // ---- C07: reply queue empty, queue == ground truth
        if post.reply_queue != 0 {
            self.vo("C07", "reply_queue_empty", format!("{} pending-reply records after the transaction", post.reply_queue));
        }
        let mut expect: BTreeMap<u64, (String, u128, String, &'static str)> = BTreeMap::new();
        let mut exempt: BTreeSet<u64> = BTreeSet::new();
        for p in &self.w.st.packets {
            if p.sender != s || p.channel != self.m.cfg.channel {
                continue;
            }
            if p.callback.is_none() {
                continue;
            }
            if self.m.recovered.contains(&p.id) {
                continue;
            }
            let st: &'static str = match p.state {
                PState::InFlight | PState::RecvOk | PState::RecvErr => "sent",
                PState::AckedOk => {
                    if self.m.lost_cb.contains(&p.id) {
                        "sent"
                    } else {
                        continue;
                    }
                }
                PState::Refunded => {
                    if self.m.lost_cb.contains(&p.id) {
                        "sent"
                    } else if p.timed_out {
                        "timed_out"
                    } else {
                        "ack_failure"
                    }
                }
            };
            if self.m.lost_cb.contains(&p.id) {
                exempt.insert(p.seq);
            }
            expect.insert(p.seq, (p.denom.clone(), p.amount, p.receiver.clone(), st));
        }
        let got: BTreeMap<u64, (String, u128, String, String)> = post.queue.iter().map(|p| (p.seq, (p.denom.clone(), p.amount, p.receiver.clone(), p.status.clone()))).collect();
        if !self.m.reckless {
            for (seq, e) in &expect {
                match got.get(seq) {
                    None => {
                        let m = format!("transfer seq {} ({} {} to {}, truly {}) is not recorded", seq, e.1, e.0, e.2, e.3);
                        self.vo("C07", "queue_tracks_all", m)
                    }
                    Some(g) => {
                        if g.0 != e.0 || g.1 != e.1 || g.2 != e.2 || (g.3 != e.3 && !exempt.contains(seq)) {
                            let m = format!("transfer seq {} recorded as {:?} but truly {:?}", seq, g, e);
                            self.vo("C07", "queue_record_exact", m)
                        }
                    }
                }
            }
            for (seq, g) in &got {
                if !expect.contains_key(seq) {
                    let m = format!("record seq {} {:?} does not correspond to an open transfer", seq, g);
                    self.vo("C07", "queue_no_ghosts", m)
                }
            }
        }

        // ---- C15: totals changed => post-transaction rates posted
        if let (Some(pre), Some(tx)) = (pre, self.last_tx.clone()) {
            if tx.ok && (pre.n != post.n || pre.l != post.l) {
                let posts: Vec<String> = tx
                    .effects
                    .iter()
                    .filter_map(|e| match e {
                        // with an oracle configured: the posts it received; with none: any post at all
                        Effect::OraclePost { msg, contract, .. } if self.m.cfg.oracle.is_none() || Some(contract.clone()) == self.m.cfg.oracle.as_ref().map(|o| o.to_lowercase()) => Some(msg.clone()),
                        _ => None,
                    })
                    .collect();
                if self.m.cfg.oracle.is_some() {
                    let (red, pur) = if post.l == 0 {
                        (Some("0".to_string()), Some("0".to_string()))
                    } else {
                        (decimal18(post.n, post.l), decimal18(post.l, post.n))
                    };
                    match (posts.last(), red, pur) {
                        (None, _, _) => self.vo("C15", "posts_on_change", "totals changed but nothing was posted to the oracle".into()),
                        (Some(p), Some(red), Some(pur)) => {
                            let pv: Value = serde_json::from_str(p).unwrap_or(Value::Null);
                            let pr = &pv["post_rates"];
                            let ok = pr["denom"].as_str() == Some(lst.as_str()) && pr["redemption_rate"].as_str() == Some(red.as_str()) && pr["purchase_rate"].as_str() == Some(pur.as_str());
                            if !ok {
                                self.vo("C15", "post_tx_rates", format!("posted {} but post-transaction rates are redemption {} purchase {} for {} (N={}, L={})", p, red, pur, lst, post.n, post.l));
                            }
                        }
                        _ => {}
                    }
                } else if !posts.is_empty() {
                    self.vo("C15", "no_oracle_no_post", "posted without an oracle configured".into());
                }
            }
        }
        // State.rate equals the purchase rate of the current totals (zero by convention when no LST exists)
        if post.l == 0 && post.rate != "0" {
            self.vo("C15", "state_rate", format!("State.rate {} but no LST exists (N={}): the posted convention is 0", post.rate, post.n));
        }
        if post.l > 0 && post.n > 0 {
            if let Some(pur) = decimal18(post.l, post.n) {
                if post.rate != pur {
                    self.vo("C15", "state_rate", format!("State.rate {} != purchase rate {} (N={}, L={})", post.rate, pur, post.n, post.l));
                }
            }
        }

        // ---- model vs query totals, attributed to the property that owns the arithmetic of this step
        if post.n != self.m.n || post.l != self.m.l {
            let p = self.totals_prop;
            self.v(p, "totals_after_op", format!("State totals N={} L={} but the reference model has N={} L={}", post.n, post.l, self.m.n, self.m.l));
        }
        // batch fields agree with the model
        for b in &post.batches {
            if let Some(mb) = self.m.batches.get(&b.id).cloned() {
                let code = status_code(&b.status);
                if mb.status == 2 && (code != 2 || b.received != mb.received.unwrap_or(0)) && !mb.reqs.is_empty() {
                    // a batch that has received its tokens stays claimable, with the amount it received, until everybody has withdrawn
                    self.vo("C05", "received_batch_stays_claimable", format!("batch {} had received {:?} and still has {} unpaid requester(s), but is now recorded as status={} received={}", b.id, mb.received, mb.reqs.len(), b.status, b.received));
                }
                if code != mb.status || (mb.status <= 1 && b.next != mb.due) || b.expected != mb.expected.unwrap_or(0) || b.received != mb.received.unwrap_or(0) {
                    self.v("C06", "batch_fields", format!("batch {} is status={} next={} expected={} received={} but model has status={} due={} expected={:?} received={:?}", b.id, b.status, b.next, b.expected, b.received, mb.status, mb.due, mb.expected, mb.received));
                }
            } else {
                self.v("C06", "batch_fields", format!("batch {} unknown to the model", b.id));
            }
        }
        if post.batches.len() != self.m.batches.len() {
            self.v("C06", "batch_fields", format!("{} batches but model has {}", post.batches.len(), self.m.batches.len()));
        }
        if post.fees != self.m.fees {
            self.vo("C11", "fee_balance", format!("State.total_fees {} != accrued-minus-withdrawn {}", post.fees, self.m.fees));
        }
        if post.rewards != self.m.rewards {
            self.vo("C11", "reward_counter", format!("State.total_reward_amount {} != sum of rewards {}", post.rewards, self.m.rewards));
        }
        if post.stopped != self.m.halted {
            self.vo("C10", "halted_flag", format!("Config.stopped {} != model {}", post.stopped, self.m.halted));
        }

        let ps = self.abstract_state();
        self.stats.pairs.insert(ps);
        self.outcomes.push((self.last_tx.as_ref().map(|t| t.ok).unwrap_or(false), post.n, post.l));
        self.trace.u128(post.n);
        self.trace.u128(post.l);
        self.trace.u64(post.queue.len() as u64);
        self.trace.u64(post.batches.len() as u64);
        self.obs = Some(post);
    }
}
